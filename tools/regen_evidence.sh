#!/bin/bash
# regenerate evidence/<id>.json for all registered checks on the current tree (quick tier, VERIF_SEED=0)
cd "$(dirname "$0")/.." || exit 2
ids="${*:-$(python3 -c "import json;print(' '.join(c['property_id'] for c in json.load(open('MANIFEST.json'))['checks']))")}"
for id in $ids; do
  ./check "$id" --tier quick > "/var/tmp/vf-regen-$id.log" 2>&1; rc=$?
  echo "$id rc=$rc $(grep -E "^\[$id" /var/tmp/vf-regen-$id.log | tail -1)"
done
