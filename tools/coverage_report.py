#!/venv/bin/python
"""Which lines of ffcx/ do the checks' workloads execute?

    VF_COVERAGE=/var/tmp/vfcov ./check C01 --tier quick   (repeat for the checks of interest; workers write coverage data there)
    tools/coverage_report.py /var/tmp/vfcov               (combines and writes coverage/ffcx_lines.json + prints a table)
"""
import json, os, sys
import coverage

d = sys.argv[1]
cov = coverage.Coverage(data_file=os.path.join(d, "cov"))
cov.combine([d], keep=True)
cov.save()
data = cov.get_data()
rows = {}
tot_h = tot_n = 0
for f in sorted(data.measured_files()):
    try:
        _, stmts, _, missing, _ = cov.analysis2(f)
    except Exception:
        continue
    rel = f[f.index("/ffcx/") + 1:] if "/ffcx/" in f else f
    hit = len(stmts) - len(missing)
    rows[rel] = {"statements": len(stmts), "executed": hit, "percent": round(100.0 * hit / max(1, len(stmts)), 1), "missing_first": missing[:40]}
    tot_h += hit; tot_n += len(stmts)
out = os.path.join(os.path.dirname(os.path.dirname(os.path.abspath(__file__))), "coverage")
os.makedirs(out, exist_ok=True)
json.dump({"total_statements": tot_n, "total_executed": tot_h, "files": rows}, open(os.path.join(out, "ffcx_lines.json"), "w"), indent=1)
for k, v in rows.items():
    print(f"{v['percent']:6.1f}%  {v['executed']:5d}/{v['statements']:<5d} {k}")
print(f"TOTAL {100.0 * tot_h / max(1, tot_n):.1f}%  {tot_h}/{tot_n}")
