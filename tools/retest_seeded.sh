#!/bin/bash
# usage: tools/retest_seeded.sh <seed-id> <worktree>  -- re-run only the repository test suite with the change applied (generous timeout) and update meta.json
id="$1"; wt="$2"; dst="/verif/seeded/$id"
tests=$(cd "$wt" && PYTHONPATH="$wt" timeout 5400 /venv/bin/python -m pytest -q -p no:cacheprovider -n 8 test/ 2>&1 | tail -n 1)
echo "$id tests: $tests"
python3 - "$dst" "$tests" <<'PY'
import json,sys,os
dst,tests=sys.argv[1:3]
p=os.path.join(dst,"meta.json"); m=json.load(open(p))
m["repository_tests_with_change"]=tests.strip()
m["confirmed"]= m["demo_with_change_rc"]!=0 and m["demo_without_change_rc"]==0 and "218 passed" in tests
json.dump(m,open(p,"w"),indent=1); print("confirmed:",m["confirmed"])
PY
