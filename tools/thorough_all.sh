#!/bin/bash
# run the thorough tier of every registered check once (evidence/replays to a scratch dir); usage: tools/thorough_all.sh [budget_s] [ids...]
cd "$(dirname "$0")/.." || exit 2
b="${1:-1200}"; shift
ids="${*:-$(python3 -c "import json;print(' '.join(c['property_id'] for c in json.load(open('MANIFEST.json'))['checks']))")}"
out=$(mktemp -d /var/tmp/vf-thorough-XXXXXX)
for id in $ids; do
  VERIF_THOROUGH_BUDGET=$b VF_OUT_DIR="$out" ./check "$id" --tier thorough > "$out/$id.log" 2>&1; rc=$?
  echo "$id rc=$rc $(grep -E "^\[$id" "$out/$id.log" | tail -1)"
  [ $rc -ne 0 ] && grep -E "violation \[|INCONCLUSIVE|KNOWN" "$out/$id.log" | cut -c1-300 | head -6
done
echo "logs in $out"
