#!/bin/bash
# usage: tools/sweep.sh <tier> "<seeds>" [ids...]   -- runs checks for several VERIF_SEED values; evidence/replays go to a scratch dir
cd "$(dirname "$0")/.." || exit 2
tier="$1"; seeds="$2"; shift 2
ids="$*"; [ -z "$ids" ] && ids=$(python3 -c "import json;print(' '.join(c['property_id'] for c in json.load(open('MANIFEST.json'))['checks']))")
out=$(mktemp -d /var/tmp/vf-sweep-XXXXXX)
for s in $seeds; do for id in $ids; do
  VERIF_SEED=$s VF_OUT_DIR="$out/s$s" ./check "$id" --tier "$tier" > "$out/$id-s$s.log" 2>&1; rc=$?
  echo "seed=$s $id rc=$rc $(grep -E "^\[$id" "$out/$id-s$s.log" | tail -1)"
  [ $rc -ne 0 ] && grep -E "violation \[|INCONCLUSIVE|KNOWN" "$out/$id-s$s.log" | cut -c1-300 | head -5
done; done
echo "logs in $out"
