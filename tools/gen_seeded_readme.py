#!/usr/bin/env python3
"""Regenerate seeded/README.md from the meta.json files."""
import json, os, glob
root = os.path.join(os.path.dirname(os.path.dirname(os.path.abspath(__file__))), "seeded")
head = """# Independent seeded changes

Each directory holds `patch.diff` (apply with `git -C /repo apply <file>`; undo with `git -C /repo checkout -- .`), the
sub-agent's demonstration `demo_break.py` and notes, the logs of the demonstration with/without the change, and `meta.json`
(what was run; which checks raise a violation when the change is applied to a scratch copy of the repository).
All were produced by fresh sub-agents that saw only the property text and a scratch worktree, then re-verified here:
the demonstration fails with the change and passes without, and the repository's test-suite still gives 218 passed.
Round 2 asked for a change different from the first seed of the same property, with a subtler or rarer trigger.
The note column says honestly whether a check caught the change as it stood or only after being strengthened.

| seed | round | property | change | needs, to manifest | confirmed | caught by (quick tier) | note |
|---|---|---|---|---|---|---|---|
"""
rows = []
for p in sorted(glob.glob(os.path.join(root, "*", "meta.json"))):
    m = json.load(open(p))
    name = os.path.basename(os.path.dirname(p))
    esc = lambda t: str(t or "").replace("|", "\\|").replace("\n", " ")
    rows.append(f"| `{name}` | {m.get('round', 1)} | {m.get('property','')} | {esc(m.get('summary'))} | {esc(m.get('needs_to_manifest'))} | "
                f"{'yes' if m.get('confirmed') else 'NO'} | {', '.join(m.get('caught_by', [])) or 'none'} | {esc(m.get('note'))} |")
open(os.path.join(root, "README.md"), "w").write(head + "\n".join(rows) + "\n")
print(len(rows), "seeds")
