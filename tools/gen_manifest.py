#!/usr/bin/env python3
"""Regenerate MANIFEST.json from the table below (keeps it valid at all times)."""
import json, os, sys
HERE = os.path.dirname(os.path.dirname(os.path.abspath(__file__)))
ALL = [f"C{i:02d}" for i in range(1, 21)]

CHECKS = {
 "C01": dict(cat="exploration", technique="runtime reference-model monitor: JIT kernels vs independent UFL/basix oracle + table contract on build_optimized_tables",
   text="Every cell kernel of a curated+seeded-random corpus (all element kinds/cells/geometry classes named in the property) is executed on random admissible data and compared with an independent numerical evaluator of the UFL form; stage contracts re-tabulate every element table. Finite-run exploration: held on K kernels x inputs, not for all forms.",
   note="Trusted: UFL lowering, basix tabulation/quadrature, gcc. Oracle imports no ffcx code.", ref="3/C01"),
 "C02": dict(cat="exploration", technique="runtime reference-model monitor over all local entity indices; non-conforming independent +/- sides",
   text="Every exterior-facet/interior-facet/vertex kernel is executed for every local entity index (all or sampled (f+,f-) pairs, sampled permutation codes) with independent geometry/data per side and compared with the oracle's own entity maps/normals/macro layout.",
   note="Trusted: UFL, basix topology/geometry. Prism normals/interior facets are rejected by ffcx and not covered.", ref="3/C02"),
 "C04": dict(cat="exploration", technique="runtime reference-model monitor; buffers packed from descriptor fields only",
   text="Expression kernels (rank 0/1, value shapes (),(n,),(n,n), cell points and facet points for all facets x all permutation codes, several per module) are executed and compared with the oracle's evaluation of the ORIGINAL expression; every descriptor field is compared with the request.",
   note="Trusted: UFL, basix. Descriptor semantics per ufcx.h.", ref="3/C04"),
 "C06": dict(cat="exploration", technique="descriptor invariants + per-(type,id) kernel sums vs harness-grouped original integrals + contract on common.integral_data",
   text="Seeded forms with random integral types/ids (ints, tuples, everywhere, repeated ids with different metadata, several forms per module, prisms) are compiled; offsets/ids invariants are read from the cffi struct, every declared (type,id) is executed for every entity and compared with the sum of the user's integrands grouped by the harness itself; metadata fields are compared with the form.",
   note="Every integral carries an explicit degree so the reference is independent of UFL's integral merging. Trusted: UFL lowering, basix.", ref="3/C06"),
 "C05": dict(cat="exploration", technique="descriptor-driven packing vs oracle on original objects + NaN/Inf poisoning of disabled coefficient storage (bitwise)",
   text="Forms whose integrals use different coefficient subsets, with coefficients removed by derivative/replace and constants created in shuffled order, are compiled; w/c are packed only from descriptor fields and compared with the oracle; every integral with a false enabled flag is re-executed with NaN/Inf/1e300 in that storage and must be bitwise unchanged.",
   note="Trusted: UFL, basix. Converse (enabled => read) not claimed.", ref="3/C05"),
 "C07": dict(cat="exploration", technique="scripted call histories in guard-paged driver (A0 variation, repeat-after-other-inputs, read-only inputs) + clang ThreadSanitizer 8-thread runs + emitted-text monitor",
   text="Every kernel kind is driven through the history k(x1,A0=0),k(x1,A0=rand),k(x1,A0=1e6 rand),k(x2),k(x1) with inputs in read-only pages; then 8 threads x 100-200 calls under TSan with bitwise comparison against the sequential result; the emitted text is scanned for non-'+=' updates of A and mutable statics.",
   note="Held on the histories and interleavings produced; accumulate comparison allows 1024 eps(|A0|+|T|).", ref="3/C07"),
 "C08": dict(cat="exploration", technique="clang ASan+UBSan and PROT_NONE guard-page executions of the generated C with exact contract-extent buffers for all entity/permutation values",
   text="Generated C of the C01/C02/C04 corpora (plus sum-factorised and diagonal kernels) is linked with a generic driver; every kernel is called for all valid entity indices and permutation codes with buffers malloc'ed at exactly the extents the UFL form implies (NULL for unused pointers) under ASan+UBSan, and again with buffers flush against guard pages.",
   note="Extents computed by the harness from the UFL form/ufcx.h. Red-zone/guard-page reach is one page; far overruns inside that are caught, beyond not (E-ast interpreter planned).", ref="3/C08"),
 "C09": dict(cat="exploration", technique="four JIT builds per form: pairwise metamorphic comparison on identical real data + oracle comparison on complex data",
   text="Sesquilinear curated forms, forms with conj/real/imag/abs/complex literals/complex math functions/derivative, and seeded random forms are compiled for float32/float64/complex64/complex128; all type pairs are compared on the same real data and each kernel with the oracle (complex kernels on complex w/c).",
   note="Reference for sesquilinearity is UFL's complex_mode lowering; tolerances 2e3-2e4 eps of the narrower type.", ref="3/C09"),
 "C10": dict(cat="exploration", technique="differential kernels of one form under option sets (sum_factorization, part=diagonal, table tolerances, non-applicable options) + oracle + measured table perturbation",
   text="(form, option set) groups are compiled with identical compiler flags and executed on the same data: sum factorisation on/off on tensor-product meshes, diagonal vs diagonal of the full tensor, tolerance grid bounded by 50x the measured table perturbation, and options that do not apply must be bitwise without effect and must not fail.",
   note="One open known finding (non-tensor-product elements with sum_factorization assert). UFL-side rejection of extract_blocks forms is not counted.", ref="3/C10"),
 "C11": dict(cat="exploration", technique="kernel output vs exact rational closed-form monomial integrals (enumerated cells x degrees x schemes) + oracle for rule mixtures with discrimination test",
   text="For every cell type and requested degree (0..30 thorough; 9 degrees quick) one kernel with the monomial exponents as constants is executed for several monomials of the maximal admissible degree on random rational affine cells and compared with exact closed forms (arity 0/1, exterior facets, GLL/Gauss-Jacobi); polynomial forms without metadata and the vertex scheme likewise; rule mixtures and quadrature elements are compared with the oracle applying each rule to its own integrand.",
   note="Closed forms are independent of UFL/basix quadrature (exact rational polynomial algebra). Enumerated sub-space is exhaustive in (cell, degree) only; monomials are sampled.", ref="3/C11"),
 "C12": dict(cat="exploration", technique="byte comparison of generator output across fresh processes with varied PYTHONHASHSEED and process histories",
   text="Recipes covering all integral types, mixed elements, several forms per module and expressions, for the C and numba backends, are generated in fresh processes under hash seeds {0,1,2,3,random} and histories {none, unrelated objects first, other forms compiled first, compiled twice, built early, hostile = related requests (same cell/degrees with macro elements, loose tolerances, other scalar type) compiled first}; all outputs must be byte-identical to the baseline; a difference is classified by mechanism from the line diff.",
   note="Three genuine defects found and fixed in /repo (comment set order, mesh-id in Jacobian names, FE numbering from a set).", ref="3/C12"),
 "C13": dict(cat="exploration", technique="names observed through jit.compile_* (aborted before the compiler) in fresh processes: stability under hash seed/history/creation order; near-miss request pairs with kernel-text digests; name monitor",
   text="Module and object names of requests (forms, several forms, expressions) are computed by the real JIT entry points in fresh processes under varied hash seeds and histories and must be identical; near-miss request pairs (one literal/index/coefficient/degree/power, evaluation points at 1e-10/1e-6/dtype/order/count/inside a >1000-element array, scalar type, each option, compiler flags, form order) must get different module names whenever their generated kernels or options differ; object names must be distinct valid identifiers.",
   note="Two genuine defects found and fixed (repr(points) truncation; duplicate expression names). Separation can only be observed for generated pairs.", ref="3/C13"),
 "C14": dict(cat="exploration", technique="history monitor: per-process audit-hook event logs (CLOCK_MONOTONIC) with injected delays at the protocol's own file-system events, merged and checked offline against the protocol invariants; every process checks its kernels against the oracle",
   text="Histories of 2..16 fresh processes released by a barrier on one cache directory with seeded delay plans and staggered arrivals, three request kinds, per-process string-hash seeds, several compile flags, optionally a stale .c.failed left by an earlier failed build, and a second wave; the offline checker decides single lock holder, single compiler launch, no load before/without the marker or of a non-final shared object, correct kernels everywhere, no failure, reuse without recompiling. Evidence lists the number of distinct interleavings observed.",
   note="Granularity is the audit-event level; local file system; no liveness claim (bounded by timeout polls, watchdog => inconclusive).", ref="3/C14"),
 "C15": dict(cat="fault_enumeration", technique="fault injection at the protocol's audit events (SIGKILL before event k, timed kills after compiler/linker launch, CC-wrapper transient failures, code-generation exception) + process-state snapshots + later-request sequences checked against the oracle",
   text="Every failure kind (code-generation exception, bad flag, transient compiler/link failure, missing library) and KeyboardInterrupt at protocol events is followed by requests in the same and another process (must raise, release the lock, leave root-logger handlers/stdout/cwd untouched, and rebuild correctly afterwards); every kill point of the builder is followed by later-request sequences that must return oracle-correct kernels loaded with the marker present, or raise.",
   note="Process death only. One genuine defect found and fixed (handlers not restored on failure).", ref="3/C15"),
 "C17": dict(cat="exploration", technique="AST interpreter as reference: exhaustive operator-overload matrix vs plain arithmetic; before/after interpretation of every real optimizer.optimize call under a deterministic lazy environment; kernels with passes disabled vs enabled vs oracle",
   text="All operand-kind pairs x operators (direct, reflected, negation, float_product, MultiIndex.global_index) built through the overloads must evaluate to plain arithmetic on the operand values; every optimize call made while compiling the corpus is replayed (deep copy before, result after) in the bounds-checked interpreter and must write identical values; whole kernels generated with the passes replaced by the identity must agree with the normal kernels and the oracle.",
   note="The interpreter defines tree values; int/int division excluded; temp_* arrays created by the passes are not outputs.", ref="3/C17"),
 "C18": dict(cat="exploration", technique="generated numba module compiled with compile() and executed as plain Python behind an index-checking numba.carray stub, compared kernel-by-kernel with the C JIT kernel on identical buffers and with the oracle; field-by-field descriptor comparison",
   text="Every form/expression of the corpus that the C backend accepts is generated with language='numba'; the module must be valid Python, each kernel must stay inside the carray sizes it declares and the buffers the contract gives, and must equal the C kernel (5e4 eps) and the oracle; every descriptor field (form, integral, expression) must equal the C descriptor's.",
   note="Quick tier executes the module as plain Python (numba type inference/compilation not exercised). Four numba defects found and fixed (plus the spellings fixed under C16).", ref="3/C18"),
 "C19": dict(cat="exploration", technique="stand-alone gcc -std=c17 -Wall builds of generated sources; exhaustive rule-id injectivity contract over all rule pairs per (cell, entity type) with compiled witnesses; audit-hook rejection monitor",
   text="Every accepted case of the corpora is generated and compiled stand-alone; all pairs of rules ffcx creates (default/Gauss-Jacobi/GLL x degree 0..30, vertex) per cell and entity type are tested for distinct ids (names embedding the id would otherwise collide) and colliding / sampled pairs are compiled; 19 unsupported constructs must raise before any compiler process is launched or else agree with the oracle.",
   note="Exhaustive over rule pairs only. Two defects found and fixed (rule id collisions; jn/yn undeclared under -std=c17).", ref="3/C19"),
 "C20": dict(cat="exploration", technique="`python -m ffcx` executed in throw-away directories; stand-alone gcc build + nm of the written files; alias monitor; kernels reached through the alias symbols compared bitwise with the JIT path's source (same flags) and with the oracle; option-source lattice",
   text="Demo and generated UFL files (named forms, expressions, elements, file names needing sanitising, -i/-o/-n/-d styles, scalar types, numba) are compiled by the command-line entry point; the source must compile alone, define everything the header declares, expose exactly the named aliases, and the kernels behind the aliases must equal the JIT kernels bitwise and the oracle; each option is run under all 8 subsets of {CLI, $PWD json, $XDG json} and the effective value must follow the documented priority.",
   note="`python -m ffcx` stands for the console script. One defect found and fixed (store_true defaults).", ref="3/C20"),
 "C03": dict(cat="exploration", technique="metamorphic runtime monitor over local vertex numberings of two physical cells sharing a facet (global-dof comparison), geometric determination of coincidence-making permutation codes, kernel-evaluated coincidence probe, oracle on samples, flag monitor",
   text="One compiled interior-facet kernel per (cell, form) is called for all / sampled pairs of local numberings (cell automorphisms) of two physical cells and all permutation code pairs that make the facet points coincide; results mapped to global dofs must equal the reference numbering; the kernel's own int|x+ - x-|^2 must vanish for those codes; sampled results must equal the oracle; kernels flagged needs_facet_permutations=false must not depend on the codes.",
   note="Exhaustive for interval/triangle/quadrilateral numbering pairs in both tiers, tetrahedron in thorough; hexahedron sampled. Convention agreement with DOLFINx is out of reach.", ref="3/C03"),
 "C16": dict(cat="exploration", technique="text monitors: formatter output re-parsed with pycparser / Python ast and compared as canonical trees with the LNodes tree; compiled-C (UBSan) and evaluated-Python values vs a bounds-checked AST interpreter; literal round-trip",
   text="Exhaustive (parent, child, position) triples over all expression node constructors (both formatters, real and complex), depth-3 trees, seeded random trees to depth 8, operator-overload-built trees, statement programs (declarations, sections, nested loops, multi-index stores) and thousands of double literals: every emitted text must parse back to the same tree, compute the interpreter's value, and literals must read back within 1 ulp.",
   note="pycparser and CPython ast are the reference grammars. Exhaustive only over the triple space. Six formatter defects found and fixed.", ref="3/C16"),
}
NA_REASON = "check not built yet in this round (runtime monitoring applies; see DESIGN.md section 3)"

def main():
    checks = []
    for pid in ALL:
        if pid not in CHECKS: continue
        c = CHECKS[pid]
        checks.append({
            "property_id": pid,
            "quick_cmd": f"./check {pid} --tier quick",
            "thorough_cmd": f"./check {pid} --tier thorough",
            "evidence_file": f"evidence/{pid}.json",
            "replay_cmd_template": f"./check {pid} --replay {{path}}",
            "engine": "vf",
            "level_claimed": {"category": c["cat"], "text": c["text"], "design_ref": c["ref"]},
            "level_note": c["note"],
            "technique": c["technique"],
        })
    m = {
        "version": 1,
        "setup_cmd": "./setup.sh",
        "hooks": {"guard": "FFCX_VERIF", "enable": "no source hooks: monitors attach from the harness process (wrappers on module attributes, sys.addaudithook, sys.monitoring); FFCX_VERIF=1 is exported by the harness but read by nothing in /repo",
                  "baseline_off_cmd": "cd /repo && /venv/bin/python -m pytest -ra -q -p no:cacheprovider --timeout=900 --continue-on-collection-errors",
                  "source_commits": [], "add_only": True},
        "engines": [{"name": "vf", "path": "vf/", "serves_properties": sorted(CHECKS), "kind_free_text": "Python harness: subprocess pool of fresh interpreters running real ffcx from /repo under monitors (reference oracle, contracts, sanitizer drivers, audit-hook history checkers)"}],
        "checks": checks,
        "not_applicable": [{"property_id": p, "reason": NA_REASON} for p in ALL if p not in CHECKS],
        "notes": "All checks rebuild from /repo's working tree (ffcx imported from it in fresh interpreters; C regenerated and recompiled). Exit 0 held / 1 VIOLATION / 2 inconclusive-or-broken.",
    }
    with open(os.path.join(HERE, "MANIFEST.json"), "w") as f:
        json.dump(m, f, indent=1); f.write("\n")
    try:
        import jsonschema
        jsonschema.validate(m, json.load(open("/root/.vp/MANIFEST.schema.json")))
        print("MANIFEST valid;", len(checks), "checks")
    except ImportError:
        print("jsonschema not available; written unvalidated")
if __name__ == "__main__":
    main()
