#!/bin/bash
# usage: tools/seed_vs_checks.sh <seed-id> "<check ids>" [tier]  -- run checks against the seeded change (scratch copy of /repo + patch)
id="$1"; ids="$2"; tier="${3:-quick}"; dst="/verif/seeded/$id"
for c in $ids; do
  out=$(/verif/mutants/with_mutant.sh "$dst/patch.diff" -- /verif/check "$c" --tier "$tier" 2>&1); rc=$?
  nv=$(echo "$out" | grep -c "^VIOLATION")
  first=$(echo "$out" | grep "violation \[" | head -1 | cut -c1-260)
  echo "$c rc=$rc violations=$nv $first"
  python3 - "$dst" "$c" "$rc" "$nv" "$first" "$tier" <<'PY'
import json,sys,os
dst,c,rc,nv,first,tier=sys.argv[1:7]
p=os.path.join(dst,"meta.json"); m=json.load(open(p)) if os.path.exists(p) else {}
m.setdefault("checks_run",{})[f"{c}/{tier}"]={"exit":int(rc),"violation_lines":int(nv),"first":first.strip()}
m["caught_by"]=sorted({k for k,v in m["checks_run"].items() if v["exit"]==1 and v["violation_lines"]>0})
json.dump(m,open(p,"w"),indent=1)
PY
done
