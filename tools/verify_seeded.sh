#!/bin/bash
# usage: tools/verify_seeded.sh <seed-id> <worktree>   -- confirm a sub-agent's breaking change and archive it under seeded/<seed-id>/
# (demo fails with the change, passes without; repository tests pass with the change)
set -u
id="$1"; wt="$2"; dst="/verif/seeded/$id"
mkdir -p "$dst"
cd "$wt" || exit 2
git diff -- ffcx > "$dst/patch.diff"
[ -s "$dst/patch.diff" ] || { echo "empty patch"; exit 2; }
cp demo_break.py "$dst/demo_break.py"; cp NOTES.md "$dst/NOTES.md" 2>/dev/null
run_demo() { (cd "$wt" && PYTHONPATH="$wt" timeout 900 /venv/bin/python demo_break.py > "$1" 2>&1; echo $?); }
with=$(run_demo "$dst/demo_with_change.log")
# (git stash is shared between worktrees of one repository: revert/re-apply the patch instead)
git apply -R "$dst/patch.diff" || exit 2
without=$(run_demo "$dst/demo_without_change.log")
git apply "$dst/patch.diff" || exit 2
tests=$(cd "$wt" && PYTHONPATH="$wt" timeout 1800 /venv/bin/python -m pytest -q -p no:cacheprovider -n 6 test/ 2>&1 | tail -1)
echo "demo_with_change_rc=$with demo_without_change_rc=$without tests: $tests"
python3 - "$dst" "$with" "$without" "$tests" <<'PY'
import json,sys,os
dst,w,wo,tests=sys.argv[1:5]
p=os.path.join(dst,"meta.json")
m=json.load(open(p)) if os.path.exists(p) else {}
m.update({"demo_with_change_rc":int(w),"demo_without_change_rc":int(wo),"repository_tests_with_change":tests.strip(),
          "confirmed": int(w)!=0 and int(wo)==0 and "218 passed" in tests})
json.dump(m,open(p,"w"),indent=1)
print("confirmed:",m["confirmed"])
PY
