"""Text monitors (DESIGN 2.7): re-parse what the formatters emitted and map both the parsed tree and the LNodes
tree to one canonical S-expression.

Canonical forms:  ("lit", v) for non-negative literals, ("neg", x), ("!", x), (op, a, b) for binary operators with
n-ary Sum/Product as left-associated chains, ("call", name, args...), ("idx", array, i1, i2, ...), ("?:", c, t, f),
statements ("=", lhs, rhs) ("+=", lhs, rhs), ("for", index, begin, end, [body...]), ("decl", name, value),
("adecl", name, sizes, values).
"""

from __future__ import annotations

import ast as pyast
import re

import vf.repoenv  # noqa: F401

C_REV = {"fabs": "abs", "cabs": "abs", "pow": "power", "cpow": "power", "log": "ln", "clog": "ln", "atan2": "atan_2",
         "fmin": "min_value", "fmax": "max_value", "jn": "bessel_j", "yn": "bessel_y", "creal": "real", "cimag": "imag", "conj": "conj"}
PY_REV = {"log": "ln", "arccos": "acos", "arcsin": "asin", "arctan": "atan", "arctan2": "atan_2", "arccosh": "acosh", "arcsinh": "asinh",
          "arctanh": "atanh", "abs": "abs", "power": "power", "minimum": "min_value", "maximum": "max_value", "fmin": "min_value", "fmax": "max_value",
          "conj": "conj", "real": "real", "imag": "imag"}


def c_func_to_ufl(name):
    if name in C_REV:
        return C_REV[name]
    base = name
    if base.endswith(("f", "l")) and base[:-1] in C_REV:
        return C_REV[base[:-1]]
    for cand in (base, base[:-1] if base.endswith(("f", "l")) else None):
        if cand is None:
            continue
        if cand in ("sqrt", "cos", "sin", "tan", "acos", "asin", "atan", "cosh", "sinh", "tanh", "acosh", "asinh", "atanh", "exp", "erf"):
            return cand
        if cand.startswith("c") and cand[1:] in ("sqrt", "cos", "sin", "tan", "acos", "asin", "atan", "cosh", "sinh", "tanh", "acosh", "asinh", "atanh", "exp"):
            return cand[1:]
    return "?" + name


def lit(v):
    if isinstance(v, complex):
        return ("cplx", lit(v.real), lit(v.imag))
    if isinstance(v, bool):
        return ("lit", int(v))
    if v < 0 or (isinstance(v, float) and str(v).startswith("-")):
        return ("neg", ("lit", -v))
    return ("lit", v)


# ---------------------------------------------------------------- from LNodes
def from_lnodes(e):
    import ffcx.codegeneration.lnodes as L

    if isinstance(e, L.LiteralFloat):
        return lit(e.value)
    if isinstance(e, L.LiteralInt):
        return lit(int(e.value))
    if isinstance(e, L.Symbol):
        return ("sym", e.name)
    if isinstance(e, L.MultiIndex):
        return from_lnodes(e.global_index)
    if isinstance(e, L.Neg):
        return ("neg", from_lnodes(e.arg))
    if isinstance(e, L.Not):
        return ("!", from_lnodes(e.arg))
    if isinstance(e, L.ArrayAccess):
        return ("idx", ("sym", e.array.name)) + tuple(from_lnodes(i) for i in e.indices)
    if isinstance(e, L.Conditional):
        return ("?:", from_lnodes(e.condition), from_lnodes(e.true), from_lnodes(e.false))
    if isinstance(e, L.MathFunction):
        return ("call", e.function) + tuple(from_lnodes(a) for a in e.args)
    if isinstance(e, L.NaryOp):
        args = [from_lnodes(a) for a in e.args]
        r = args[0]
        for a in args[1:]:
            r = (e.op, r, a)
        return r
    if isinstance(e, L.BinOp):
        return (e.op, from_lnodes(e.lhs), from_lnodes(e.rhs))
    if isinstance(e, L.StatementList):
        return [x for s in e.statements for x in _stmt(s)]
    return _stmt(e)


def _stmt(s):
    import ffcx.codegeneration.lnodes as L
    import numpy as np

    if isinstance(s, L.StatementList):
        return [x for t in s.statements for x in _stmt(t)]
    if isinstance(s, L.Comment):
        return []
    if isinstance(s, L.Section):
        out = [x for d in s.declarations for x in _stmt(d)]
        body = [x for t in s.statements for x in _stmt(t)]
        if s.statements:
            out.append(("block", body))
        return out
    if isinstance(s, L.VariableDecl):
        return [("decl", s.symbol.name, from_lnodes(s.value) if s.value is not None else None)]
    if isinstance(s, L.ArrayDecl):
        vals = None if s.values is None else [lit(v.item() if hasattr(v, "item") else v) for v in np.asarray(s.values).ravel()]
        return [("adecl", s.symbol.name, tuple(int(n) for n in s.sizes), vals)]
    if isinstance(s, L.ForRange):
        idx = s.index.name if isinstance(s.index, L.Symbol) else str(s.index)
        return [("for", idx, from_lnodes(s.begin), from_lnodes(s.end), _stmt(s.body))]
    if isinstance(s, L.Statement):
        return [from_lnodes(s.expr)]
    raise ValueError(f"cannot canonicalise {type(s).__name__}")


# ---------------------------------------------------------------- from C text
_PRE = "typedef _Bool bool; typedef unsigned char uint8_t; typedef unsigned long uint64_t;\n"


def _strip_c(text):
    text = re.sub(r"//[^\n]*", "", text)
    text = re.sub(r"/\*.*?\*/", "", text, flags=re.S)
    text = text.replace("restrict", "").replace("static const ", "const ").replace("alignas(32)", "")
    text = re.sub(r"\b(double|float)\s+_Complex\b", r"\1", text)
    return text


def parse_c_expr(text):
    from pycparser import c_parser

    src = _PRE + "void f(void){ __r = " + _strip_c(text) + "; }"
    tree = c_parser.CParser().parse(src)
    fn = tree.ext[-1]
    return _c(fn.body.block_items[0].rvalue)


def parse_c_statements(text):
    from pycparser import c_parser

    src = _PRE + "void f(void){\n" + _strip_c(text) + "\n}"
    tree = c_parser.CParser().parse(src)
    return _c_block(tree.ext[-1].body.block_items or [])


def _c_block(items):
    out = []
    for it in items:
        out += _c_stmt(it)
    return out


def _c_num(s):
    s2 = s.rstrip("fFlLuU")
    if re.fullmatch(r"[0-9]+", s2):
        return int(s2)
    return float(s2)


def _c(n):
    from pycparser import c_ast as A

    if isinstance(n, A.Constant):
        return ("lit", _c_num(n.value))
    if isinstance(n, A.ID):
        return ("sym", n.name)
    if isinstance(n, A.UnaryOp):
        if n.op == "-":
            return ("neg", _c(n.expr))
        if n.op == "!":
            return ("!", _c(n.expr))
        if n.op == "+":
            return ("pos", _c(n.expr))
        return ("unary" + n.op, _c(n.expr))
    if isinstance(n, A.BinaryOp):
        a, b = _c(n.left), _c(n.right)
        # complex literal "(re+I*im)"
        if n.op == "+" and isinstance(n.right, A.BinaryOp) and n.right.op == "*" and isinstance(n.right.left, A.ID) and n.right.left.name == "I":
            return ("cplx", a, _c(n.right.right))
        return (n.op, a, b)
    if isinstance(n, A.TernaryOp):
        return ("?:", _c(n.cond), _c(n.iftrue), _c(n.iffalse))
    if isinstance(n, A.FuncCall):
        args = tuple(_c(a) for a in (n.args.exprs if n.args else []))
        return ("call", c_func_to_ufl(n.name.name)) + args
    if isinstance(n, A.ArrayRef):
        idx = []
        cur = n
        while isinstance(cur, A.ArrayRef):
            idx.append(_c(cur.subscript))
            cur = cur.name
        return ("idx", _c(cur)) + tuple(reversed(idx))
    if isinstance(n, A.Assignment):
        return (n.op, _c(n.lvalue), _c(n.rvalue))
    if isinstance(n, A.Cast):
        return ("cast", _c(n.expr))
    raise ValueError(f"C node {type(n).__name__}")


def _init_values(init):
    from pycparser import c_ast as A

    if isinstance(init, A.InitList):
        out = []
        for e in init.exprs:
            out += _init_values(e)
        return out
    return [_c(init)]


def _c_stmt(n):
    from pycparser import c_ast as A

    if isinstance(n, A.Compound):
        return [("block", _c_block(n.block_items or []))]
    if isinstance(n, A.Decl):
        t = n.type
        sizes = []
        while isinstance(t, A.ArrayDecl):
            sizes.append(_c(t.dim)[1] if t.dim is not None else None)
            t = t.type
        if sizes:
            vals = _init_values(n.init) if n.init is not None else None
            return [("adecl", n.name, tuple(sizes), vals)]
        return [("decl", n.name, _c(n.init) if n.init is not None else None)]
    if isinstance(n, A.For):
        init = n.init.decls[0]
        idx = init.name
        begin = _c(init.init)
        cond = n.cond
        if not (isinstance(cond, A.BinaryOp) and cond.op == "<" and isinstance(cond.left, A.ID) and cond.left.name == idx):
            raise ValueError("unexpected loop condition")
        if not (isinstance(n.next, A.UnaryOp) and n.next.op in ("++", "p++") and n.next.expr.name == idx):
            raise ValueError("unexpected loop increment")
        body = n.stmt.block_items if isinstance(n.stmt, A.Compound) else [n.stmt]
        return [("for", idx, begin, _c(cond.right), _c_block(body or []))]
    if isinstance(n, A.EmptyStatement):
        return []
    return [_c(n)]


# ---------------------------------------------------------------- from Python text (numba formatter)
_PYOPS = {pyast.Add: "+", pyast.Sub: "-", pyast.Mult: "*", pyast.Div: "/", pyast.Lt: "<", pyast.Gt: ">", pyast.LtE: "<=", pyast.GtE: ">=",
          pyast.Eq: "==", pyast.NotEq: "!="}


def parse_py_expr(text):
    node = pyast.parse(text.strip(), mode="eval").body
    return _py(node)


def _py(n):
    if isinstance(n, pyast.Constant):
        if isinstance(n.value, complex):
            return ("cplx", lit(0.0), lit(n.value.imag)) if n.value.real == 0 else lit(n.value)
        return ("lit", n.value)
    if isinstance(n, pyast.Name):
        return ("sym", n.id)
    if isinstance(n, pyast.UnaryOp):
        if isinstance(n.op, pyast.USub):
            return ("neg", _py(n.operand))
        if isinstance(n.op, pyast.Not):
            return ("!", _py(n.operand))
        return ("unary", _py(n.operand))
    if isinstance(n, pyast.BinOp):
        a, b = _py(n.left), _py(n.right)
        if isinstance(n.op, pyast.Add) and b[0] == "cplx" and b[1] == ("lit", 0.0) and _is_real_lit(a):
            return ("cplx", a, b[2])
        if isinstance(n.op, pyast.Sub) and b[0] == "cplx" and b[1] == ("lit", 0.0) and _is_real_lit(a):
            return ("cplx", a, ("neg", b[2]) if b[2][0] != "neg" else b[2][1])
        return (_PYOPS.get(type(n.op), "?" + type(n.op).__name__), a, b)
    if isinstance(n, pyast.Compare):
        if len(n.ops) != 1:
            return ("chain",) + tuple(_py(c) for c in [n.left] + n.comparators)
        return (_PYOPS.get(type(n.ops[0]), "?"), _py(n.left), _py(n.comparators[0]))
    if isinstance(n, pyast.BoolOp):
        op = "&&" if isinstance(n.op, pyast.And) else "||"
        vals = [_py(v) for v in n.values]
        r = vals[0]
        for v in vals[1:]:
            r = (op, r, v)
        return r
    if isinstance(n, pyast.IfExp):
        return ("?:", _py(n.test), _py(n.body), _py(n.orelse))
    if isinstance(n, pyast.Call):
        f = n.func
        if isinstance(f, pyast.Attribute):
            name = f.attr
            mod = f.value.id if isinstance(f.value, pyast.Name) else "?"
            full = f"{mod}.{name}"
        else:
            name = full = f.id
        return ("call", PY_REV.get(name, name), ) + tuple(_py(a) for a in n.args) + (("__pyname__", full),)
    if isinstance(n, pyast.Subscript):
        sl = n.slice
        idx = tuple(_py(e) for e in sl.elts) if isinstance(sl, pyast.Tuple) else (_py(sl),)
        return ("idx", _py(n.value)) + idx
    raise ValueError(f"python node {type(n).__name__}")


def strip_pyname(t):
    """Remove the ('__pyname__', full) marker added to calls (kept separately for the existence check)."""
    if isinstance(t, tuple):
        return tuple(strip_pyname(x) for x in t if not (isinstance(x, tuple) and len(x) == 2 and x[0] == "__pyname__"))
    if isinstance(t, list):
        return [strip_pyname(x) for x in t]
    return t


def pynames(t, acc=None):
    acc = acc if acc is not None else set()
    if isinstance(t, (tuple, list)):
        if isinstance(t, tuple) and len(t) == 2 and t[0] == "__pyname__":
            acc.add(t[1])
        else:
            for x in t:
                pynames(x, acc)
    return acc


def _is_real_lit(t):
    return isinstance(t, tuple) and (t[0] == "lit" or (t[0] == "neg" and isinstance(t[1], tuple) and t[1][0] == "lit"))


def normalise(t):
    """`2.5 + 2j` and the complex literal (2.5+2j) are the same tree for Python's parser (it drops the parentheses):
    fold  real-literal +/- pure-imaginary-literal  into one complex literal on both sides before comparing."""
    if isinstance(t, list):
        return [normalise(x) for x in t]
    if not isinstance(t, tuple):
        return t
    t = tuple(normalise(x) for x in t)
    if len(t) == 3 and t[0] in ("+", "-") and _is_real_lit(t[1]) and isinstance(t[2], tuple) and t[2][0] == "cplx" and t[2][1] == ("lit", 0.0):
        im = t[2][2]
        if t[0] == "-":
            im = im[1] if im[0] == "neg" else ("neg", im)
        return ("cplx", t[1], im)
    return t


def canon_equal(a, b, tol=0.0, _norm=True):
    """Structural equality of canonical trees; numeric literals compared by value."""
    if _norm:
        return canon_equal(normalise(a), normalise(b), tol, False)
    return _canon_equal(a, b, tol)


def _canon_equal(a, b, tol=0.0):
    if isinstance(a, (tuple, list)) and isinstance(b, (tuple, list)):
        if len(a) != len(b):
            return False
        if a and a[0] == "lit" and b and b[0] == "lit" and len(a) == 2:
            x, y = a[1], b[1]
            if isinstance(x, (int, float)) and isinstance(y, (int, float)):
                return x == y or abs(x - y) <= tol * max(abs(x), abs(y))
            return x == y
        return all(_canon_equal(x, y, tol) for x, y in zip(a, b))
    return a == b
