"""One client process of the JIT cache protocol, instrumented (DESIGN 2.6).

    python -m vf.jitproc <spec.json>

Records, with CLOCK_MONOTONIC timestamps (comparable across processes), the audit events that ARE the
cache protocol (exclusive create of <mod>.c, source rename, compiler/linker launches, marker creation,
failure rename, dynamic-module load) plus client-boundary call/return events; injects seeded delays or a
SIGKILL at those same events.  Writes JSON lines to spec["log"].
"""

from __future__ import annotations

import hashlib
import json
import os
import signal
import sys
import threading
import time

SPEC = None
LOG = None
PID = os.getpid()
STATE = {"n_events": 0, "module": None, "armed": False}
_lock = threading.Lock()


def now():
    return time.clock_gettime(time.CLOCK_MONOTONIC)


def log(ev, **kw):
    rec = {"t": now(), "pid": PID, "role": SPEC.get("role", "?"), "ev": ev}
    rec.update(kw)
    with _lock:
        LOG.write(json.dumps(rec) + "\n")
        LOG.flush()
        os.fsync(LOG.fileno())


def classify(event, args):
    """Map a Python audit event to a protocol event key (or None)."""
    cdir = SPEC["cache_dir"]
    if event == "open":
        p, mode = args[0], args[1]
        if not isinstance(p, (str, bytes, os.PathLike)):
            return None
        p = os.fsdecode(p)
        if not p.startswith(cdir):
            return None
        base = os.path.basename(p)
        if base.endswith(".c") and mode and "x" in str(mode):
            return "lock_open", base
        if base.endswith(".c.cached") and mode and "x" in str(mode):
            return "marker_open", base
        if ".c.~" in base and mode and ("w" in str(mode)):
            return "src_tmp_open", base
        return None
    if event == "os.rename":
        src, dst = os.fsdecode(args[0]), os.fsdecode(args[1])
        if not (src.startswith(cdir) or dst.startswith(cdir)):
            return None
        if dst.endswith(".c.failed"):
            return "rename_failed", os.path.basename(dst)
        if dst.endswith(".c"):
            return "rename_src", os.path.basename(dst)
        return None
    if event == "os.remove":
        p = os.fsdecode(args[0])
        if p.startswith(cdir):
            return "remove", os.path.basename(p)
        return None
    if event == "subprocess.Popen":
        argv = [str(a) for a in (args[1] or [])]
        if any(a == "-c" for a in argv) and any(a.endswith(".c") for a in argv):
            return "popen_cc", " ".join(os.path.basename(a) for a in argv if a.endswith((".c", ".o")))
        if any(a == "-shared" for a in argv):
            return "popen_link", " ".join(os.path.basename(a) for a in argv if a.endswith((".o", ".so")))
        return None
    if event == "import":
        fn = args[1]
        if fn and isinstance(fn, str) and fn.startswith(cdir):
            return "import", os.path.basename(fn)
        return None
    return None


def file_digest(path):
    try:
        with open(path, "rb") as f:
            b = f.read()
        return hashlib.sha256(b).hexdigest()[:16], len(b)
    except OSError:
        return None, None


def hook(event, args):
    if not STATE["armed"]:
        return
    try:
        k = classify(event, args)
    except Exception:
        return
    if k is None:
        return
    key, detail = k
    idx = STATE["n_events"]
    STATE["n_events"] += 1
    extra = {}
    if key == "import":
        cdir = SPEC["cache_dir"]
        so = os.path.join(cdir, detail)
        mod = detail.split(".")[0]
        d, n = file_digest(so)
        extra = {"so_sha": d, "so_size": n, "marker_exists": os.path.exists(os.path.join(cdir, mod + ".c.cached"))}
    log("proto", key=key, detail=detail, idx=idx, **extra)
    kill = SPEC.get("kill") or {}
    if kill.get("before_event") == idx:
        log("inject", what="SIGKILL before event", key=key, idx=idx)
        os.kill(PID, signal.SIGKILL)
    if kill.get("after_popen") and key == {"cc": "popen_cc", "link": "popen_link"}[kill["after_popen"]]:
        delta = float(kill.get("delta", 0.05))

        def killer():
            time.sleep(delta)
            log("inject", what=f"SIGKILL {delta}s after {key}", group=bool(kill.get("group")))
            if kill.get("group"):
                os.killpg(os.getpgid(PID), signal.SIGKILL)
            else:
                os.kill(PID, signal.SIGKILL)

        threading.Thread(target=killer, daemon=True).start()
    intr = SPEC.get("interrupt") or {}
    if intr and not STATE.get("interrupted"):
        if intr.get("before") == key:
            # Ctrl-C at this protocol point: an exception raised by an audit hook propagates into the audited call
            STATE["interrupted"] = True
            log("inject", what="KeyboardInterrupt before event", key=key, idx=idx)
            raise KeyboardInterrupt(f"injected before {key}")
        if intr.get("after_popen") and key == {"cc": "popen_cc", "link": "popen_link"}[intr["after_popen"]]:
            STATE["interrupted"] = True
            delta_i = float(intr.get("delta", 0.02))

            def interrupter():
                time.sleep(delta_i)
                log("inject", what=f"SIGINT {delta_i}s after {key}")
                os.kill(PID, signal.SIGINT)

            threading.Thread(target=interrupter, daemon=True).start()
    d = (SPEC.get("delay_plan") or {}).get(key)
    if d:
        log("inject", what="delay", key=key, seconds=d)
        time.sleep(float(d))


def build_request(req):
    from vf import corpus

    b = corpus.build(req["recipe"])
    if b.forms:
        return "forms", list(b.forms)
    return "expressions", list(b.expressions)


def check_kernels(kind, objs, module, expected):
    """Run every returned object on the fixed data and compare with the parent's reference values."""
    import numpy as np

    from vf import harness as H

    ffi = module.ffi
    worst = 0.0
    n = 0
    for i, obj in enumerate(objs):
        e = expected[i]
        x = np.asarray(e["x"], dtype=np.float64)
        w = np.asarray(e["w"], dtype=np.float64)
        c = np.asarray(e["c"], dtype=np.float64)
        R = np.asarray(e["R"], dtype=np.float64)
        A = np.zeros(R.shape)
        target = obj.form_integrals[0] if kind == "forms" else obj
        H.call_kernel(ffi, target, "float64", A, w, c, x, None, None)
        scale = max(float(np.max(np.abs(R))), 1e-300)
        worst = max(worst, float(np.max(np.abs(A - R))) / scale)
        n += 1
    return worst, n


def global_state():
    import logging

    root = logging.getLogger()
    return {"handlers": [id(h) for h in root.handlers], "handler_types": [type(h).__name__ for h in root.handlers],
            "stdout": id(sys.stdout), "stderr": id(sys.stderr), "cwd": os.getcwd(), "root_level": root.level,
            "disabled": logging.root.manager.disable}


def main():
    global SPEC, LOG
    SPEC = json.load(open(sys.argv[1]))
    LOG = open(SPEC["log"], "a")
    if SPEC.get("new_session"):
        try:
            os.setsid()
        except OSError:
            pass
    log("start")
    import vf.repoenv  # noqa: F401
    import ffcx.codegeneration.jit as jit

    if SPEC.get("user_handler"):
        import logging

        logging.getLogger().addHandler(logging.NullHandler())
    kind, objs = build_request(SPEC["request"])
    expected = json.load(open(SPEC["expected"])) if SPEC.get("expected") else None
    # wrappers: lock result
    orig_gcm = jit.get_cached_module

    def gcm(module_name, object_names, cache_dir, timeout):
        STATE["module"] = module_name
        t0 = now()
        try:
            r = orig_gcm(module_name, object_names, cache_dir, timeout)
        except BaseException as e:
            log("lock_result", module=module_name, outcome="raised:" + type(e).__name__, waited=now() - t0)
            raise
        log("lock_result", module=module_name, outcome="builder" if r[0] is None else "loaded_existing", waited=now() - t0)
        return r

    jit.get_cached_module = gcm
    if SPEC.get("fault") == "codegen_exception":
        import ffcx.compiler

        def boom(*a, **k):
            raise RuntimeError("injected failure inside code generation")

        jit_compile = ffcx.compiler.compile_ufl_objects
        ffcx.compiler.compile_ufl_objects = boom
    sys.addaudithook(hook)
    # barrier
    t0 = SPEC.get("t0")
    if t0:
        while time.time() < t0:
            time.sleep(0.001)
    if SPEC.get("start_delay"):
        time.sleep(float(SPEC["start_delay"]))
    nreq = SPEC.get("repeat", 1)
    for r in range(nreq):
        before = global_state()
        STATE["armed"] = True
        log("call", req=r)
        outcome = {}
        try:
            fn = jit.compile_forms if kind == "forms" else jit.compile_expressions
            extra = {}
            if SPEC.get("cffi_libraries") and (r == 0 or not SPEC.get("cffi_libraries_once")):
                extra["cffi_libraries"] = list(SPEC["cffi_libraries"])
            res_objs, module, code = fn(list(objs), options=dict(SPEC.get("options") or {}), cache_dir=SPEC["cache_dir"],
                                         timeout=int(SPEC.get("timeout", 30)),
                                         cffi_extra_compile_args=list(SPEC.get("compile_args") or []), **extra)
            outcome["status"] = "returned"
            outcome["from_cache"] = code[0] is None
            outcome["module"] = module.__name__
            if expected is not None:
                try:
                    worst, n = check_kernels(kind, res_objs, module, expected)
                    outcome["kernel_err"] = worst
                    outcome["kernels_checked"] = n
                except Exception as e:
                    outcome["kernel_check_error"] = f"{type(e).__name__}: {e}"
        except BaseException as e:
            outcome["status"] = "raised"
            outcome["exc"] = type(e).__name__
            outcome["msg"] = str(e)[:200]
        STATE["armed"] = False
        after = global_state()
        outcome["state_changed"] = {k: [before[k], after[k]] for k in before if before[k] != after[k]}
        mod = STATE["module"]
        if mod:
            cdir = SPEC["cache_dir"]
            outcome["files"] = sorted(f for f in os.listdir(cdir) if f.startswith(mod))
        log("return", req=r, **outcome)
        if r == 0 and SPEC.get("remove_after_first"):
            for fn in SPEC["remove_after_first"]:
                try:
                    os.unlink(fn)
                except OSError:
                    pass
        if SPEC.get("fault") == "codegen_exception" and SPEC.get("fault_once"):
            import ffcx.compiler

            ffcx.compiler.compile_ufl_objects = jit_compile
    log("exit")


if __name__ == "__main__":
    main()
