"""Bind this interpreter to the repository under test and assert the binding.

Imported first by every worker.  ffcx must be imported from FFCX_VERIF_REPO (default /repo,
the working tree), never from a stale copy.
"""

import os
import sys
import warnings

REPO = os.path.abspath(os.environ.get("FFCX_VERIF_REPO", "/repo"))
if sys.path[0] != REPO:
    sys.path.insert(0, REPO)
warnings.simplefilter("ignore")

import ffcx  # noqa: E402

_f = os.path.realpath(ffcx.__file__)
if not _f.startswith(os.path.realpath(REPO) + os.sep):
    raise RuntimeError(f"ffcx imported from {_f}, expected under {REPO}")
