"""Executors and data for kernel checks: JIT compile through the real ffcx, descriptor reads,
geometry / coefficient data, descriptor-driven packing, kernel calls, comparison with the oracle.
"""

from __future__ import annotations

import os
import tempfile

import basix
import basix.ufl
import numpy as np
import ufl

import vf.repoenv  # noqa: F401
from vf import oracle as O

SCALARS = {
    "float32": (np.float32, np.float32, "float", "float"),
    "float64": (np.float64, np.float64, "double", "double"),
    "complex64": (np.complex64, np.float32, "float _Complex", "float"),
    "complex128": (np.complex128, np.float64, "double _Complex", "double"),
}
EPS = {"float32": 6e-8, "float64": 1.2e-16, "complex64": 6e-8, "complex128": 1.2e-16}
ITYPES = ("cell", "exterior_facet", "interior_facet", "vertex", "ridge")


def scratch_dir(prefix="w"):
    base = os.environ.get("VF_SCRATCH") or tempfile.gettempdir()
    return tempfile.mkdtemp(prefix=prefix + "-", dir=base)


# ----------------------------------------------------------------------------- compile
class Compiled:
    def __init__(self, objs, module, code, options):
        self.objs, self.module, self.code, self.options = objs, module, code, options
        self.ffi = module.ffi
        self.scalar = str(np.dtype(options.get("scalar_type", "float64")).name)
        self.table_delta = 0.0


def jit_forms(forms, options=None, extra_args=("-O1",), cache_dir=None, **kw) -> Compiled:
    import ffcx.codegeneration.jit as jit

    from vf import monitors as M

    options = dict(options or {})
    cache_dir = cache_dir or scratch_dir("jit")
    # the perturbation ffcx's table clean-up (clamping, merging of tables equal within its tolerances) applied to table
    # values during this compile is measured and travels with the compiled module: value comparisons allow for it
    with M.table_delta() as td:
        objs, module, code = jit.compile_forms(
            list(forms), options=options, cache_dir=cache_dir, cffi_extra_compile_args=list(extra_args), **kw
        )
    comp = Compiled(objs, module, code, options)
    comp.table_delta = float(td.delta)
    return comp


def jit_expressions(exprs, options=None, extra_args=("-O1",), cache_dir=None, **kw) -> Compiled:
    import ffcx.codegeneration.jit as jit

    from vf import monitors as M

    options = dict(options or {})
    cache_dir = cache_dir or scratch_dir("jit")
    with M.table_delta() as td:
        objs, module, code = jit.compile_expressions(
            list(exprs), options=options, cache_dir=cache_dir, cffi_extra_compile_args=list(extra_args), **kw
        )
    comp = Compiled(objs, module, code, options)
    comp.table_delta = float(td.delta)
    return comp


# ----------------------------------------------------------------------------- descriptors
def read_form(ffi, f) -> dict:
    """Read every field of a ufcx_form (cffi struct) into plain Python."""
    nco = f.num_coefficients
    ncs = f.num_constants
    off = [f.form_integral_offsets[i] for i in range(6)]
    n = off[5]
    d = {
        "signature": ffi.string(f.signature).decode(),
        "rank": f.rank,
        "num_coefficients": nco,
        "original_coefficient_positions": [f.original_coefficient_positions[i] for i in range(nco)],
        "coefficient_names": [ffi.string(f.coefficient_name_map[i]).decode() for i in range(nco)],
        "num_constants": ncs,
        "constant_ranks": [f.constant_ranks[i] for i in range(ncs)],
        "constant_names": [ffi.string(f.constant_name_map[i]).decode() for i in range(ncs)],
        "offsets": off,
        "ids": [f.form_integral_ids[i] for i in range(max(n, 0))] if 0 <= n < 10000 else [],
        "finite_element_hashes": [int(f.finite_element_hashes[i]) for i in range(f.rank + nco)],
    }
    d["constant_shapes"] = [
        [f.constant_shapes[i][j] for j in range(d["constant_ranks"][i])] for i in range(ncs)
    ]
    return d


def integral_entries(ffi, f, desc=None):
    """[(itype, id, k, ufcx_integral*)] in the order of the form descriptor."""
    desc = desc or read_form(ffi, f)
    off = desc["offsets"]
    out = []
    for t, name in enumerate(ITYPES):
        for k in range(off[t], off[t + 1]):
            out.append((name, desc["ids"][k], k, f.form_integrals[k]))
    return out


def read_integral(ffi, itg, ncoeff) -> dict:
    return {
        "enabled_coefficients": [bool(itg.enabled_coefficients[i]) for i in range(ncoeff)],
        "needs_facet_permutations": bool(itg.needs_facet_permutations),
        "coordinate_element_hash": int(itg.coordinate_element_hash),
        "domain": int(itg.domain),
        "has": {s: getattr(itg, "tabulate_tensor_" + s) != ffi.NULL for s in SCALARS},
    }


def read_expression(ffi, e) -> dict:
    nco, ncs = e.num_coefficients, e.num_constants
    rank_vs = None
    d = {
        "num_coefficients": nco,
        "num_constants": ncs,
        "original_coefficient_positions": [e.original_coefficient_positions[i] for i in range(nco)],
        "coefficient_names": [ffi.string(e.coefficient_names[i]).decode() for i in range(nco)],
        "constant_names": [ffi.string(e.constant_names[i]).decode() for i in range(ncs)],
        "num_points": e.num_points,
        "entity_dimension": e.entity_dimension,
        "num_components": e.num_components,
        "rank": e.rank,
        "coordinate_element_hash": int(e.coordinate_element_hash),
        "has": {s: getattr(e, "tabulate_tensor_" + s) != ffi.NULL for s in SCALARS},
    }
    del rank_vs
    return d


# ----------------------------------------------------------------------------- geometry & data
def random_affine(rng, tdim, gdim, allow_reflect=True):
    """Random affine map with |det| in [0.2,5] and condition number <= 20 (rejection)."""
    for _ in range(1000):
        B = np.eye(gdim)[:, :tdim] + 0.45 * rng.standard_normal((gdim, tdim))
        B *= float(np.exp(rng.uniform(-0.6, 0.6)))
        sv = np.linalg.svd(B, compute_uv=False)
        vol = float(np.prod(sv))
        if sv[0] / sv[-1] <= 20 and 0.2 <= vol <= 5:
            if allow_reflect and tdim == gdim and rng.random() < 0.3:
                B[:, 0] *= -1
            return B, rng.uniform(-1, 1, gdim)
    raise RuntimeError("no admissible affine map")


def make_geometry(rng, coord_element, kind="affine", allow_reflect=True, perturb=0.06):
    """Coordinate dofs (nnodes, 3) for one cell.  kind: affine | nonaffine."""
    scal = coord_element._sub_element
    gdim = coord_element.reference_value_shape[0]
    Xn = np.asarray(scal.basix_element.points)
    tdim = Xn.shape[1]
    B, b = random_affine(rng, tdim, gdim, allow_reflect)
    x = Xn @ B.T + b
    if kind == "nonaffine":
        cellname = scal.cell_type.name
        for _ in range(50):
            xp = x + perturb * rng.standard_normal(x.shape)
            if _detj_ok(scal, cellname, xp, tdim, gdim):
                x = xp
                break
            perturb *= 0.6
    out = np.zeros((x.shape[0], 3))
    out[:, :gdim] = x
    return out


def _detj_ok(scal, cellname, x, tdim, gdim):
    pts, _ = basix.make_quadrature(O.celltype(cellname), 6)
    verts = np.asarray(basix.geometry(O.celltype(cellname)))
    pts = np.vstack([pts, verts])
    t = scal.basix_element.tabulate(1, pts)  # (1+tdim, P, n, 1)
    J = np.einsum("dpn,ng->pgd", t[1:, :, :, 0], x)  # (P, gdim, tdim)
    if tdim == gdim:
        d = np.linalg.det(J)
        return bool(np.all(np.sign(d) == np.sign(d[0])) and np.min(np.abs(d)) > 0.25 * np.mean(np.abs(d)))
    g = np.sqrt(np.abs(np.linalg.det(np.einsum("pgd,pge->pde", J, J))))
    return bool(np.min(g) > 0.25 * np.mean(g))


def rand_values(rng, n, complex_mode, lo=-1.0, hi=1.0):
    v = rng.uniform(lo, hi, n)
    if complex_mode:
        v = v + 1j * rng.uniform(lo, hi, n)
    return v


def make_data(rng, coord_element, coefficients, constants, interior=False, complex_data=False, kind="affine",
              allow_reflect=True):
    sides = ("+", "-") if interior else ("+",)
    data = {"x": {}, "w": {}, "c": {}}
    for s in sides:
        data["x"][s] = make_geometry(rng, coord_element, kind, allow_reflect)
    for c in coefficients:
        n = c.ufl_function_space().ufl_element().dim
        data["w"][c] = {s: rand_values(rng, n, complex_data) for s in sides}
    for c in constants:
        n = int(np.prod(c.ufl_shape)) if c.ufl_shape else 1
        data["c"][c] = rand_values(rng, n, complex_data).reshape(c.ufl_shape)
    return data


# ----------------------------------------------------------------------------- packing by descriptor
def pack_w(original_coefficients, positions, data, interior, dtype, fill=None, enabled=None):
    """w[coefficient][restriction][dof] in the order given by the descriptor's
    original_coefficient_positions.  `enabled` + `fill`: coefficients whose flag is false get
    `fill` instead of their values (poisoning)."""
    parts = []
    slots = []
    for k, p in enumerate(positions):
        c = original_coefficients[p]
        for s in ("+", "-") if interior else ("+",):
            v = np.asarray(data["w"][c][s]).astype(dtype)
            if enabled is not None and not enabled[k] and fill is not None:
                v = np.full(v.shape, fill, dtype=dtype)
            slots.append((k, s, sum(len(q) for q in parts), len(v)))
            parts.append(v)
    w = np.concatenate(parts).astype(dtype) if parts else np.zeros(0, dtype=dtype)
    return np.ascontiguousarray(w), slots


def pack_c(constants, data, dtype):
    parts = [np.ravel(np.asarray(data["c"][c])) for c in constants]
    return np.ascontiguousarray(np.concatenate(parts).astype(dtype)) if parts else np.zeros(0, dtype=dtype)


def pack_x(data, interior, rdtype):
    xs = [data["x"]["+"]] + ([data["x"]["-"]] if interior else [])
    return np.ascontiguousarray(np.concatenate(xs).astype(rdtype))


def call_kernel(ffi, obj, scalar, A, w, c, x, ent=None, perm=None):
    dt, rdt, cs, cr = SCALARS[scalar]
    k = getattr(obj, "tabulate_tensor_" + scalar)
    if k == ffi.NULL:
        raise RuntimeError(f"kernel for {scalar} is NULL")
    assert A.dtype == dt and w.dtype == dt and c.dtype == dt and x.dtype == rdt
    pe = ffi.NULL if ent is None else ffi.cast("int*", ent.ctypes.data)
    pp = ffi.NULL if perm is None else ffi.cast("uint8_t*", perm.ctypes.data)
    pw = ffi.cast(cs + "*", w.ctypes.data) if w.size else ffi.NULL
    pc = ffi.cast(cs + "*", c.ctypes.data) if c.size else ffi.NULL
    k(ffi.cast(cs + "*", A.ctypes.data), pw, pc, ffi.cast(cr + "*", x.ctypes.data), pe, pp, ffi.NULL)


# ----------------------------------------------------------------------------- comparison
def compare(K, R, S, scalar, delta=0.0, ops=1.0, floor=0.0):
    """err = max|K-R| / max(S); returns (err, bound, status) with status in ok|bad|grey."""
    scale = float(np.max(S)) if S.size else 0.0
    if scale <= 0 or not np.isfinite(scale):
        scale = max(float(np.max(np.abs(R))) if R.size else 0.0, 1e-300)
    # floor: tabulated basis values carry an ABSOLUTE error of about eps (their intermediate magnitudes are O(1)), so a
    # reference whose terms all vanish (e.g. derivatives of piecewise constants, which ffcx drops exactly) is rounding noise
    # of relative size O(1) against its own magnitude tensor; callers without a prefilled A pass floor ~ size of the data
    scale = max(scale, floor)
    K = np.asarray(K).reshape(R.shape)
    if not np.all(np.isfinite(R)) or not np.all(np.isfinite(S)):
        return float("nan"), 0.0, "degenerate"
    if not np.all(np.isfinite(K)):
        return float("inf"), 0.0, "bad"
    err = float(np.max(np.abs(K - R))) / scale if R.size else 0.0
    tight = 2000 * EPS[scalar] * max(1.0, np.sqrt(ops))
    bound = tight + 50 * delta
    if err <= bound:
        return err, bound, "ok"
    if err <= 100 * bound and delta > 1e-12:
        return err, bound, "grey"
    return err, bound, "bad"


def entities_for(orc: O.FormOracle, itype):
    edim, n = orc.entity_info(itype)
    return list(range(n))


def facet_perm_count(cellname, f=0):
    return O.num_facet_perms(O.facet_celltype(cellname, f))


# ----------------------------------------------------------------------------- contract extents
def contract_extents(orc, itype):
    """Buffer extents implied by the form alone (UFCx contract): elements of A, w, c, coordinate_dofs,
    entity_local_index, quadrature_permutation."""
    m = 2 if itype == "interior_facet" else 1
    shape = orc.tensor_shape(itype)
    nA = int(np.prod(shape)) if shape else 1
    nw = m * sum(c.ufl_function_space().ufl_element().dim for c in orc.reduced_coefficients)
    nc = sum(int(np.prod(c.ufl_shape)) if c.ufl_shape else 1 for c in orc.constants)
    nx = m * 3 * orc.coord_element.dim // orc.coord_element.reference_value_shape[0]
    ne = 0 if itype == "cell" else m
    # exterior-facet / ridge kernels whose descriptor sets needs_facet_permutations (mixed-dimensional forms) are given one
    # permutation code by the caller: callers of contract_extents raise "perm" to 1 for those kernels
    npm = 2 if itype == "interior_facet" else 0
    return {"A": nA, "w": nw, "c": nc, "x": nx, "ent": ne, "perm": npm}


def parse_integral_flags(source):
    """{form symbol: [needs_facet_permutations of each kernel in descriptor order]} parsed from generated C."""
    import re

    flag = {m.group(1): m.group(2) == "true"
            for m in re.finditer(r"ufcx_integral (\w+) =\s*\{[^}]*?\.needs_facet_permutations = (true|false)", source, re.S)}
    out = {}
    for m in re.finditer(r"static ufcx_integral\* form_integrals_(\w+)\[\d+\] = \{([^}]*)\};", source):
        out[m.group(1)] = [flag.get(t.strip().lstrip("&")) for t in m.group(2).split(",") if t.strip()]
    return out


def parse_form_tables(source):
    """{form symbol: (offsets[6], ids)} parsed from generated C (no JIT needed)."""
    import re

    out = {}
    for m in re.finditer(r"int form_integral_offsets_(\w+)\[(\d+)\] = \{([^}]*)\};", source):
        name = m.group(1)
        offs = [int(v) for v in m.group(3).split(",") if v.strip()]
        mi = re.search(r"int form_integral_ids_" + name + r"\[(\d+)\] = \{([^}]*)\};", source)
        ids = [int(v) for v in mi.group(2).split(",") if v.strip()] if mi else []
        out[name] = (offs, ids)
    return out
