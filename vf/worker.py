"""Worker entry: python -m vf.worker <check-module> <cases.json> <out.jsonl>."""

import importlib
import json
import os
import sys
import time
import traceback


def main():
    modname, fin, fout = sys.argv[1:4]
    import vf.repoenv  # noqa: F401  (binds ffcx to the repository under test)
    from vf.common import INCONCLUSIVE, jsonable

    cov = None
    if os.environ.get("VF_COVERAGE"):
        # optional: record which lines of ffcx/ the workload executes (reported by tools/coverage_report.py)
        import coverage

        cov = coverage.Coverage(data_file=os.path.join(os.environ["VF_COVERAGE"], "cov"), data_suffix=True,
                                source=[os.path.join(vf.repoenv.REPO, "ffcx")], branch=False)
        cov.start()
    mod = importlib.import_module(f"vf.checks.{modname}")
    with open(fin) as f:
        cases = json.load(f)
    with open(fout, "a") as out:
        for case in cases:
            idx = case.pop("_index")
            t0 = time.time()
            try:
                r = mod.run_case(case)
            except BaseException as e:  # harness error => inconclusive, never a verdict
                if isinstance(e, KeyboardInterrupt):
                    raise
                r = {
                    "verdict": INCONCLUSIVE,
                    "why": f"harness exception {type(e).__name__}: {str(e)[:200]}",
                    "log": traceback.format_exc()[-2500:],
                }
            r["_index"] = idx
            r["_dt"] = round(time.time() - t0, 3)
            out.write(json.dumps(jsonable(r)) + "\n")
            out.flush()
    if cov is not None:
        cov.stop()
        cov.save()


if __name__ == "__main__":
    main()
