"""Closed-form integrals of monomials over affine images of the reference cells (exact rational
arithmetic).  Independent of UFL, basix quadrature and the oracle: only the reference-cell vertex
coordinates (basix.geometry / topology) are used.  DESIGN 3/C11.
"""

from __future__ import annotations

import itertools
import math
from fractions import Fraction as Fr

import basix
import numpy as np


# ---------------------------------------------------------------- tiny exact polynomial algebra
def pmul(p, q):
    out = {}
    for ea, ca in p.items():
        for eb, cb in q.items():
            e = tuple(a + b for a, b in zip(ea, eb))
            out[e] = out.get(e, 0) + ca * cb
    return {e: c for e, c in out.items() if c != 0}


def ppow(p, n, nvars):
    out = {(0,) * nvars: Fr(1)}
    for _ in range(n):
        out = pmul(out, p)
    return out


def affine_poly(row, shift, nvars):
    """Polynomial  shift + sum_j row[j] X_j."""
    p = {}
    if shift != 0:
        p[(0,) * nvars] = Fr(shift)
    for j, r in enumerate(row):
        if r != 0:
            e = [0] * nvars
            e[j] = 1
            p[tuple(e)] = p.get(tuple(e), 0) + Fr(r)
    return p


# ---------------------------------------------------------------- reference monomial integrals
def ref_monomial_integral(cellname, beta):
    f = math.factorial
    if cellname == "interval":
        return Fr(1, beta[0] + 1)
    if cellname == "triangle":
        a, b = beta
        return Fr(f(a) * f(b), f(a + b + 2))
    if cellname == "tetrahedron":
        a, b, c = beta
        return Fr(f(a) * f(b) * f(c), f(a + b + c + 3))
    if cellname in ("quadrilateral", "hexahedron"):
        r = Fr(1)
        for b in beta:
            r *= Fr(1, b + 1)
        return r
    if cellname == "prism":
        a, b, c = beta
        return Fr(f(a) * f(b), f(a + b + 2)) * Fr(1, c + 1)
    if cellname == "pyramid":
        a, b, c = beta
        return Fr(f(c) * f(a + b + 2), f(a + b + c + 3)) / ((a + 1) * (b + 1))
    if cellname == "point":
        return Fr(1)
    raise ValueError(cellname)


def integrate_ref(cellname, poly):
    return sum((c * ref_monomial_integral(cellname, e) for e, c in poly.items()), Fr(0))


# ---------------------------------------------------------------- P1-type vertex basis as exact polynomials
def vertex_basis(cellname):
    """phi_i: the lowest-order Lagrange basis of the reference cell (1 at vertex i), as polynomials in X.
    simplices: affine; quadrilateral/hexahedron: multilinear; prism: (affine in x,y) x (linear in z)."""
    ct = basix.CellType[cellname]
    V = [[Fr(int(round(c))) for c in v] for v in np.asarray(basix.geometry(ct))]
    d = len(V[0])
    X = [affine_poly([1 if j == i else 0 for j in range(d)], 0, d) for i in range(d)]
    one = {(0,) * d: Fr(1)}

    def sub(p, q):
        out = dict(p)
        for e, c in q.items():
            out[e] = out.get(e, 0) - c
        return {e: c for e, c in out.items() if c != 0}

    basis = []
    if cellname in ("interval", "triangle", "tetrahedron"):
        lam0 = one
        for i in range(d):
            lam0 = sub(lam0, X[i])
        for v in V:
            if all(c == 0 for c in v):
                basis.append(lam0)
            else:
                basis.append(X[[int(c) for c in v].index(1)])
        return basis
    if cellname in ("quadrilateral", "hexahedron"):
        for v in V:
            p = one
            for i in range(d):
                p = pmul(p, X[i] if v[i] == 1 else sub(one, X[i]))
            basis.append(p)
        return basis
    if cellname == "prism":
        lam0 = sub(sub(one, X[0]), X[1])
        for v in V:
            tri = lam0 if (v[0] == 0 and v[1] == 0) else (X[0] if v[0] == 1 else X[1])
            zz = X[2] if v[2] == 1 else sub(one, X[2])
            basis.append(pmul(tri, zz))
        return basis
    raise ValueError(f"no polynomial vertex basis for {cellname}")


# ---------------------------------------------------------------- rational affine maps
def rational_affine(rng, tdim):
    """(B, b) with small rational entries, |det| in [1/4, 6], all vertex images with coordinates >= 1/2 after the shift."""
    vals = [Fr(-1), Fr(-1, 2), Fr(0), Fr(1, 2), Fr(1), Fr(3, 2), Fr(2)]
    for _ in range(10000):
        B = [[vals[int(rng.integers(len(vals)))] for _ in range(tdim)] for _ in range(tdim)]
        Bf = np.array([[float(x) for x in r] for r in B])
        det = np.linalg.det(Bf)
        if not (0.25 <= abs(det) <= 6):
            continue
        sv = np.linalg.svd(Bf, compute_uv=False)
        if sv[0] / sv[-1] > 8:
            continue
        return B, Bf
    raise RuntimeError("no map")


def shift_positive(cellname, Bf, B):
    ct = basix.CellType[cellname]
    V = np.asarray(basix.geometry(ct))
    img = V @ Bf.T
    b = []
    for i in range(Bf.shape[0]):
        lo = img[:, i].min()
        b.append(Fr(1, 2) - Fr(int(math.floor(lo * 2)), 2))
    return b


def det_exact(B):
    n = len(B)
    if n == 1:
        return B[0][0]
    if n == 2:
        return B[0][0] * B[1][1] - B[0][1] * B[1][0]
    return (B[0][0] * (B[1][1] * B[2][2] - B[1][2] * B[2][1]) - B[0][1] * (B[1][0] * B[2][2] - B[1][2] * B[2][0])
            + B[0][2] * (B[1][0] * B[2][1] - B[1][1] * B[2][0]))


# ---------------------------------------------------------------- the integrals
def monomial_cell_integral(cellname, B, b, alpha, phi=None):
    """Exact  int_K x^alpha [phi_i(X(x))] dx  for K = B*ref + b; returns Fraction or list over i."""
    d = len(B)
    poly = {(0,) * d: Fr(1)}
    for i, a in enumerate(alpha):
        poly = pmul(poly, ppow(affine_poly(B[i], b[i], d), a, d))
    adet = abs(det_exact(B))
    if phi is None:
        return integrate_ref(cellname, poly) * adet
    return [integrate_ref(cellname, pmul(poly, p)) * adet for p in phi]


def monomial_facet_integral(cellname, facet, B, b, alpha):
    """int over facet f of K of x^alpha ds = (exact rational) * (float facet scale)."""
    ct = basix.CellType[cellname]
    td = len(B)
    topo = basix.topology(ct)
    V = np.asarray(basix.geometry(ct))
    fv = [[Fr(int(round(c))) for c in V[i]] for i in topo[td - 1][facet]]
    ftype = basix.cell.subentity_types(ct)[td - 1][facet].name
    fd = td - 1
    # X(s) = v0 + sum_k s_k (v_k - v0)
    Xs = []
    for i in range(td):
        Xs.append(affine_poly([fv[k + 1][i] - fv[0][i] for k in range(fd)], fv[0][i], max(fd, 1)))
    nv = max(fd, 1)
    poly = {(0,) * nv: Fr(1)}
    for i, a in enumerate(alpha):
        # x_i = sum_j B[i][j] X_j + b_i
        xi = {(0,) * nv: Fr(b[i])} if b[i] != 0 else {}
        for j in range(td):
            for e, c in Xs[j].items():
                xi[e] = xi.get(e, 0) + B[i][j] * c
        xi = {e: c for e, c in xi.items() if c != 0}
        poly = pmul(poly, ppow(xi, a, nv))
    if fd == 0:
        return float(poly.get((0,), Fr(0))), 1.0
    exact = integrate_ref(ftype, poly)
    # facet scale: norm of the image of the reference facet's tangent frame
    Bf = np.array([[float(x) for x in r] for r in B])
    T = np.array([[float(fv[k + 1][i] - fv[0][i]) for k in range(fd)] for i in range(td)])  # td x fd
    G = Bf @ T
    scale = math.sqrt(abs(np.linalg.det(G.T @ G)))
    return float(exact) * scale, scale


def physical_vertices(cellname, Bf, b):
    V = np.asarray(basix.geometry(basix.CellType[cellname]))
    return V @ Bf.T + np.array([float(x) for x in b])


def exponent_sets(tdim, total, rng, n=4):
    """A few exponent tuples with |alpha| = total: extremes, spread and random."""
    out = []
    if total < 0:
        return out
    for i in range(tdim):
        e = [0] * tdim
        e[i] = total
        out.append(tuple(e))
    base = [total // tdim] * tdim
    base[0] += total - sum(base)
    out.append(tuple(base))
    for _ in range(n):
        cuts = sorted(rng.integers(0, total + 1, tdim - 1).tolist()) if tdim > 1 else []
        parts = [b_ - a_ for a_, b_ in zip([0] + cuts, cuts + [total])]
        out.append(tuple(parts))
    seen = []
    for e in out:
        if e not in seen:
            seen.append(e)
    return seen[: n + 1]


__all__ = [n for n in dir() if not n.startswith("_")]
_ = itertools
