/* Generic kernel driver for sanitizer / valgrind / guard-page executions (DESIGN 2.4, E-san).
 *
 * Linked with the ffcx-generated source and a generated stub that defines
 *     void* VF_OBJECTS[];  int VF_KINDS[];  int VF_NOBJ;      (kind 0 = ufcx_form, 1 = ufcx_expression)
 * Reads a binary call script, performs the calls with buffers of EXACTLY the contract extent,
 * writes every resulting A to the output file.
 *
 * record := int32 header[16] then raw arrays A0, w, c, x, ent, perm
 *   header: 0 obj index, 1 integral index k (forms) , 2 scalar code (0 f32,1 f64,2 c64,3 c128),
 *           3 nA, 4 nw, 5 nc, 6 nx, 7 n_ent (0 => NULL), 8 n_perm (0 => NULL),
 *           9 flags (1 = guard-page allocation + read-only inputs, 2 = leave-uninit mask follows for w),
 *           10 repeat count, 11 threads (0/1 = none), 12 n_uninit ranges (pairs begin,end in w elements), 13.. reserved
 */
#define _GNU_SOURCE
#include <errno.h>
#include <pthread.h>
#include <stdint.h>
#include <stdio.h>
#include <stdlib.h>
#include <string.h>
#include <sys/mman.h>
#include <unistd.h>
#include <ufcx.h>

extern void* VF_OBJECTS[];
extern int VF_KINDS[];
extern int VF_NOBJ;
void vf_init(void) __attribute__((weak)); /* optional: fill VF_OBJECTS at run time (objects reached through alias pointers) */

static size_t esize(int code) { return code == 0 ? 4 : code == 1 ? 8 : code == 2 ? 8 : 16; }
static size_t rsize(int code) { return (code == 0 || code == 2) ? 4 : 8; }

typedef struct
{
  void* base;
  size_t len;
  void* user;
} buf_t;

/* exact-size allocation; guard mode: buffer flush against a PROT_NONE page */
static buf_t alloc_buf(size_t nbytes, int guard, size_t align)
{
  buf_t b = {0, 0, 0};
  if (nbytes == 0)
    return b;
  if (!guard)
  {
    b.user = malloc(nbytes);
    if (!b.user) { perror("malloc"); exit(3); }
    return b;
  }
  size_t pg = (size_t)sysconf(_SC_PAGESIZE);
  size_t npages = (nbytes + pg - 1) / pg;
  b.len = (npages + 2) * pg;
  b.base = mmap(NULL, b.len, PROT_READ | PROT_WRITE, MAP_PRIVATE | MAP_ANONYMOUS, -1, 0);
  if (b.base == MAP_FAILED) { perror("mmap"); exit(3); }
  mprotect(b.base, pg, PROT_NONE);
  mprotect((char*)b.base + (npages + 1) * pg, pg, PROT_NONE);
  size_t off = npages * pg - nbytes;
  off -= off % align; /* keep natural alignment: a few bytes before the guard may be slack */
  b.user = (char*)b.base + pg + off;
  return b;
}
static void protect_ro(buf_t* b)
{
  if (b->base)
  {
    size_t pg = (size_t)sysconf(_SC_PAGESIZE);
    mprotect((char*)b->base + pg, b->len - 2 * pg, PROT_READ);
  }
}
static void free_buf(buf_t* b, int guard)
{
  if (!b->user) return;
  if (guard) munmap(b->base, b->len); else free(b->user);
}

static void* kernel_of(int obj, int k, int code)
{
  if (obj < 0 || obj >= VF_NOBJ) { fprintf(stderr, "bad object index\n"); exit(3); }
  if (VF_KINDS[obj] == 0)
  {
    ufcx_form* f = (ufcx_form*)VF_OBJECTS[obj];
    ufcx_integral* itg = f->form_integrals[k];
    switch (code)
    {
    case 0: return (void*)itg->tabulate_tensor_float32;
    case 1: return (void*)itg->tabulate_tensor_float64;
    case 2: return (void*)itg->tabulate_tensor_complex64;
    default: return (void*)itg->tabulate_tensor_complex128;
    }
  }
  ufcx_expression* e = (ufcx_expression*)VF_OBJECTS[obj];
  switch (code)
  {
  case 0: return (void*)e->tabulate_tensor_float32;
  case 1: return (void*)e->tabulate_tensor_float64;
  case 2: return (void*)e->tabulate_tensor_complex64;
  default: return (void*)e->tabulate_tensor_complex128;
  }
}

static void call(void* fn, int code, void* A, const void* w, const void* c, const void* x, const int* ent, const uint8_t* perm)
{
  switch (code)
  {
  case 0: ((ufcx_tabulate_tensor_float32*)fn)((float*)A, (const float*)w, (const float*)c, (const float*)x, ent, perm, NULL); break;
  case 1: ((ufcx_tabulate_tensor_float64*)fn)((double*)A, (const double*)w, (const double*)c, (const double*)x, ent, perm, NULL); break;
  case 2: ((ufcx_tabulate_tensor_complex64*)fn)((float _Complex*)A, (const float _Complex*)w, (const float _Complex*)c, (const float*)x, ent, perm, NULL); break;
  default: ((ufcx_tabulate_tensor_complex128*)fn)((double _Complex*)A, (const double _Complex*)w, (const double _Complex*)c, (const double*)x, ent, perm, NULL); break;
  }
}

typedef struct
{
  void* fn; int code; void* A; const void* w; const void* c; const void* x; const int* ent; const uint8_t* perm; int reps;
  const void* A0; size_t nbytesA;
} targ_t;

static void* thread_main(void* p)
{
  targ_t* t = (targ_t*)p;
  for (int r = 0; r < t->reps; ++r)
  {
    memcpy(t->A, t->A0, t->nbytesA);
    call(t->fn, t->code, t->A, t->w, t->c, t->x, t->ent, t->perm);
  }
  return NULL;
}

static void rd(FILE* f, void* p, size_t n)
{
  if (n && fread(p, 1, n, f) != n) { fprintf(stderr, "short read\n"); exit(3); }
}

int main(int argc, char** argv)
{
  if (argc < 3) { fprintf(stderr, "usage: driver script out\n"); return 3; }
  if (vf_init) vf_init();
  FILE* in = fopen(argv[1], "rb");
  FILE* out = fopen(argv[2], "wb");
  if (!in || !out) { perror("open"); return 3; }
  int32_t h[16];
  long ncalls = 0;
  while (fread(h, sizeof(int32_t), 16, in) == 16)
  {
    int obj = h[0], k = h[1], code = h[2];
    size_t nA = h[3], nw = h[4], nc = h[5], nx = h[6], ne = h[7], np = h[8];
    int guard = h[9] & 1, reps = h[10] > 0 ? h[10] : 1, nthreads = h[11], nun = h[12];
    size_t es = esize(code), rs = rsize(code);
    buf_t bA0 = alloc_buf(nA * es, 0, es), bw = alloc_buf(nw * es, guard, es), bc = alloc_buf(nc * es, guard, es),
          bx = alloc_buf(nx * rs, guard, rs), be = alloc_buf(ne * sizeof(int), guard, sizeof(int)), bp = alloc_buf(np, guard, 1);
    rd(in, bA0.user, nA * es);
    /* w: optionally leave ranges uninitialised (memcheck definedness tracking) */
    void* wtmp = nw ? malloc(nw * es) : NULL;
    rd(in, wtmp, nw * es);
    int32_t* un = nun ? malloc(2 * nun * sizeof(int32_t)) : NULL;
    if (nun) rd(in, un, 2 * nun * sizeof(int32_t));
    for (size_t i = 0; i < nw; ++i)
    {
      int skip = 0;
      for (int u = 0; u < nun; ++u) if ((int)i >= un[2 * u] && (int)i < un[2 * u + 1]) skip = 1;
      if (!skip) memcpy((char*)bw.user + i * es, (char*)wtmp + i * es, es);
    }
    free(wtmp); free(un);
    rd(in, bc.user, nc * es);
    rd(in, bx.user, nx * rs);
    rd(in, be.user, ne * sizeof(int));
    rd(in, bp.user, np);
    if (guard) { protect_ro(&bw); protect_ro(&bc); protect_ro(&bx); protect_ro(&be); protect_ro(&bp); }
    void* fn = kernel_of(obj, k, code);
    if (!fn) { fprintf(stderr, "NULL kernel pointer obj %d k %d code %d\n", obj, k, code); return 4; }
    if (nthreads > 1)
    {
      pthread_t* th = malloc(nthreads * sizeof(pthread_t));
      targ_t* ta = malloc(nthreads * sizeof(targ_t));
      buf_t* bA = malloc(nthreads * sizeof(buf_t));
      for (int t = 0; t < nthreads; ++t)
      {
        bA[t] = alloc_buf(nA * es, guard, es);
        ta[t] = (targ_t){fn, code, bA[t].user, bw.user, bc.user, bx.user, (const int*)be.user, (const uint8_t*)bp.user, reps, bA0.user, nA * es};
        pthread_create(&th[t], NULL, thread_main, &ta[t]);
      }
      for (int t = 0; t < nthreads; ++t) pthread_join(th[t], NULL);
      for (int t = 0; t < nthreads; ++t) { fwrite(bA[t].user, es, nA, out); free_buf(&bA[t], guard); }
      free(th); free(ta); free(bA);
    }
    else
    {
      for (int r = 0; r < reps; ++r)
      {
        buf_t bA = alloc_buf(nA * es, guard, es);
        memcpy(bA.user, bA0.user, nA * es);
        call(fn, code, bA.user, bw.user, bc.user, bx.user, (const int*)be.user, (const uint8_t*)bp.user);
        fwrite(bA.user, es, nA, out); /* memcheck reports here if A depends on uninitialised storage */
        free_buf(&bA, guard);
      }
    }
    free_buf(&bA0, 0); free_buf(&bw, guard); free_buf(&bc, guard); free_buf(&bx, guard); free_buf(&be, guard); free_buf(&bp, guard);
    ++ncalls;
  }
  fclose(in);
  if (fflush(out) != 0 || fclose(out) != 0) { perror("write"); return 3; }
  fprintf(stderr, "VF_DRIVER_OK calls=%ld\n", ncalls);
  return 0;
}
