"""Workloads: picklable recipes -> UFL objects.

A recipe is a plain dict {"b": builder name, "cell": ..., "cdeg": 1|2, "gdim": int|None,
"p": {builder parameters}}.  `build(recipe)` returns a Built with the UFL forms or
expressions.  Curated builders are hand-written from the reading of the code (DESIGN 2.2);
`rand` is the seeded grammar-based generator.
"""

from __future__ import annotations

import os

import basix
import basix.ufl
import numpy as np
import ufl
from ufl import (
    CellDiameter,
    CellVolume,
    Circumradius,
    Coefficient,
    Constant,
    FacetArea,
    FacetNormal,
    FunctionSpace,
    Mesh,
    SpatialCoordinate,
    TestFunction,
    TestFunctions,
    TrialFunction,
    TrialFunctions,
    avg,
    conditional,
    cos,
    curl,
    derivative,
    det,
    div,
    dot,
    dS,
    ds,
    dx,
    exp,
    grad,
    inner,
    jump,
    ln,
    lt,
    outer,
    sin,
    sqrt,
    sym,
    tanh,
    tr,
)

TDIM = {"interval": 1, "triangle": 2, "quadrilateral": 2, "tetrahedron": 3, "hexahedron": 3, "prism": 3, "pyramid": 3}
SIMPLICES = ("interval", "triangle", "tetrahedron")
TP_CELLS = ("quadrilateral", "hexahedron")


class Ctx:
    def __init__(self, cell, cdeg=1, gdim=None, tpmesh=False):
        self.cell = cell
        self.tdim = TDIM[cell]
        self.gdim = gdim or self.tdim
        self.cdeg = cdeg
        if tpmesh:
            # tensor-product coordinate element (needed by ffcx for sum factorisation)
            el = basix.create_tp_element(basix.ElementFamily.P, basix.CellType[cell], cdeg, basix.LagrangeVariant.gll_warped)
            self.ce = basix.ufl.blocked_element(basix.ufl.wrap_element(el), shape=(self.gdim,))
        else:
            self.ce = basix.ufl.element("Lagrange", cell, cdeg, shape=(self.gdim,))
        self.mesh = Mesh(self.ce)

    def el(self, family, degree, shape=None, **kw):
        return basix.ufl.element(family, self.cell, degree, shape=shape, **kw)

    def V(self, family="Lagrange", degree=1, shape=None, **kw):
        return FunctionSpace(self.mesh, self.el(family, degree, shape, **kw))

    def space(self, element):
        return FunctionSpace(self.mesh, element)

    @property
    def x(self):
        return SpatialCoordinate(self.mesh)

    @property
    def n(self):
        return FacetNormal(self.mesh)


class Built:
    def __init__(self, ctx, forms=None, expressions=None, note=""):
        self.ctx = ctx
        self.forms = forms or []
        self.expressions = expressions or []
        self.note = note


BUILDERS = {}


def builder(fn):
    BUILDERS[fn.__name__] = fn
    return fn


def build(recipe) -> Built:
    if recipe["b"] == "demo":
        return build_demo(recipe)
    ctx = Ctx(recipe["cell"], recipe.get("cdeg", 1), recipe.get("gdim"), recipe.get("tpmesh", False))
    out = BUILDERS[recipe["b"]](ctx, **recipe.get("p", {}))
    if isinstance(out, Built):
        return out
    if isinstance(out, ufl.Form):
        return Built(ctx, forms=[out])
    if isinstance(out, list) and out and isinstance(out[0], ufl.Form):
        return Built(ctx, forms=out)
    if isinstance(out, tuple):
        return Built(ctx, expressions=[out])
    if isinstance(out, list):
        return Built(ctx, expressions=out)
    raise TypeError(type(out))


def build_demo(recipe) -> Built:
    repo = os.environ.get("FFCX_VERIF_REPO", "/repo")
    ufd = ufl.algorithms.load_ufl_file(os.path.join(repo, "demo", recipe["file"]))
    b = Built(None, forms=list(ufd.forms), expressions=list(ufd.expressions))
    b.object_names = ufd.object_names
    b.elements = list(ufd.elements)
    return b


def measure(itype, **kw):
    return {"cell": dx, "exterior_facet": ds, "interior_facet": dS, "vertex": ufl.dP}[itype](**kw)


# ============================================================================ cell forms
@builder
def mass(c, family="Lagrange", degree=1, shape=None, sid=None, md=None):
    V = c.V(family, degree, shape)
    u, v = TrialFunction(V), TestFunction(V)
    return inner(u, v) * dx(**_mk(sid, md))


def _mk(sid=None, md=None, **kw):
    d = dict(kw)
    if sid is not None:
        d["subdomain_id"] = tuple(sid) if isinstance(sid, list) else sid
    if md:
        d["metadata"] = md
    return d


@builder
def stiff_nl(c, degree=2):
    V = c.V("Lagrange", degree)
    u, v = TrialFunction(V), TestFunction(V)
    f = Coefficient(V)
    return (1 + f * f) * inner(grad(u), grad(v)) * dx


@builder
def vector_elasticity(c, degree=1):
    V = c.V("Lagrange", degree, shape=(c.gdim,))
    u, v = TrialFunction(V), TestFunction(V)
    mu = Constant(c.mesh)
    lam = Constant(c.mesh)
    eps = lambda w: sym(grad(w))  # noqa: E731
    return (2 * mu * inner(eps(u), eps(v)) + lam * inner(tr(eps(u)), tr(eps(v)))) * dx


@builder
def tensor_space(c, degree=1, symmetry=False):
    g = c.gdim
    S = c.V("Lagrange", degree, shape=(g, g), symmetry=True if symmetry else None)
    s, t = TrialFunction(S), TestFunction(S)
    K = Constant(c.mesh, shape=(g, g))
    return inner(s, t) * dx + inner(tr(s), t[0, g - 1]) * dx + inner(dot(K, s), t) * dx


@builder
def stokes(c):
    g = c.gdim
    P2 = c.el("Lagrange", 2, shape=(g,))
    P1 = c.el("Lagrange", 1)
    W = c.space(basix.ufl.mixed_element([P2, P1]))
    (u, p) = TrialFunctions(W)
    (v, q) = TestFunctions(W)
    K = Constant(c.mesh, shape=(g, g))
    w = Coefficient(W)
    return (
        inner(K * grad(u), grad(v)) - inner(p, div(v)) + inner(div(u), q) + inner(dot(ufl.split(w)[0], ufl.nabla_grad(u)), v)
    ) * dx


@builder
def mini(c):
    P1 = c.el("Lagrange", 1)
    B = c.el("Bubble", c.tdim + 1)
    E = basix.ufl.enriched_element([P1, B])
    V = c.space(basix.ufl.blocked_element(E, shape=(c.gdim,)))
    Q = c.space(P1)
    u, v = TrialFunction(V), TestFunction(V)
    f = Coefficient(Q)
    return (inner(grad(u), grad(v)) + f * inner(u, v)) * dx


@builder
def curlcurl(c, degree=1):
    V = c.V("N1curl", degree)
    u, v = TrialFunction(V), TestFunction(V)
    k = Constant(c.mesh)
    return (inner(curl(u), curl(v)) + k * inner(u, v)) * dx


@builder
def hdiv(c, family="RT", degree=1):
    V = c.V(family, degree)
    u, v = TrialFunction(V), TestFunction(V)
    f = Coefficient(V)
    x = c.x
    return (div(u) * div(v) + sin(x[0]) * inner(f, v) * inner(u, f)) * dx


@builder
def mixed_poisson(c, degree=1):
    RT = c.el("RT", degree)
    DG = c.el("DG", degree - 1)
    W = c.space(basix.ufl.mixed_element([RT, DG]))
    (sigma, u) = TrialFunctions(W)
    (tau, w) = TestFunctions(W)
    f = Coefficient(c.space(DG))
    return (inner(sigma, tau) - inner(u, div(tau)) + inner(div(sigma), w) + f * inner(u, w)) * dx


@builder
def regge(c, family="Regge", degree=1):
    V = c.V(family, degree)
    u, v = TrialFunction(V), TestFunction(V)
    return inner(u, v) * dx


@builder
def real_space(c):
    P = c.V("Lagrange", 2)
    Rs = c.space(basix.ufl.real_element(c.cell, ()))
    lam = TrialFunction(Rs)
    v = TestFunction(P)
    f = Coefficient(P)
    r = Coefficient(Rs)
    return (1 + f * f) * inner(lam, v) * dx + r * inner(lam, v) * dx


@builder
def quadrature_element(c, degree=2, scheme="default"):
    QE = basix.ufl.quadrature_element(c.cell, (), scheme, degree)
    V = c.V("Lagrange", 1)
    q = Coefficient(c.space(QE))
    u, v = TrialFunction(V), TestFunction(V)
    return exp(q) * u * v * dx(metadata={"quadrature_degree": degree, "quadrature_rule": scheme})


@builder
def quadrature_element_vec(c, degree=2):
    QE = basix.ufl.quadrature_element(c.cell, (c.gdim,), "default", degree)
    V = c.V("Lagrange", 1)
    q = Coefficient(c.space(QE))
    v = TestFunction(V)
    return inner(q, grad(v)) * dx(metadata={"quadrature_degree": degree})


@builder
def functional_geom(c, degree=2):
    V = c.V("Lagrange", degree)
    f = Coefficient(V)
    h = CellDiameter(c.mesh) if c.cdeg == 1 else 2.0
    vol = CellVolume(c.mesh) if c.cell in SIMPLICES and c.cdeg == 1 else 1.0
    r = Circumradius(c.mesh) if c.cell in SIMPLICES else 1.0
    return (sqrt(1 + inner(grad(f), grad(f))) + h * vol + r) * dx


@builder
def functional_x(c, degree=2):
    V = c.V("Lagrange", degree)
    f = Coefficient(V)
    x = c.x
    return (f * f * sin(x[0]) + det(ufl.Jacobian(c.mesh)) if c.tdim == c.gdim else f * f * sin(x[0])) * dx


@builder
def linear_nl(c, degree=2):
    V = c.V("Lagrange", degree)
    v = TestFunction(V)
    f, g = Coefficient(V), Coefficient(V)
    k = Constant(c.mesh)
    return (k * exp(-f * f) * inner(grad(g), grad(v)) + conditional(lt(f, g), f, g * g) * v) * dx


@builder
def mathfuns(c, degree=1):
    V = c.V("Lagrange", degree)
    v = TestFunction(V)
    f = Coefficient(V)
    a = 0.4 * f  # in (-0.4, 0.4)
    e = (
        sqrt(1 + a * a)
        + exp(a)
        + ln(1.5 + a)
        + cos(a)
        + sin(a)
        + ufl.tan(a)
        + ufl.cosh(a)
        + ufl.sinh(a)
        + tanh(a)
        + ufl.acos(a)
        + ufl.asin(a)
        + ufl.atan(a)
        + ufl.erf(a)
        + ufl.atan2(a, 1.5 + a)
        + abs(a)
        + ufl.max_value(a, 0.1)
        + ufl.min_value(a, -0.1)
        + (1.5 + a) ** 2.5
        + (1.5 + a) ** a
        + ufl.sign(a)
    )
    return e * v * dx


@builder
def conditionals(c):
    V = c.V("Lagrange", 1)
    v = TestFunction(V)
    f, g = Coefficient(V), Coefficient(V)
    x = c.x
    c1 = ufl.And(ufl.lt(f, g), ufl.ge(x[0], 0.1))
    c2 = ufl.Or(ufl.gt(f, 0.3), ufl.Not(ufl.le(g, -0.2)))
    c3 = ufl.ne(f, g)
    c4 = ufl.eq(f, f)
    return (
        conditional(c1, f, 2 * g) + conditional(c2, 3.0, g * f) + conditional(c3, 1.0, 5.0) + conditional(c4, 0.5, 7.0)
    ) * v * dx


@builder
def hyperelastic(c):
    g = c.gdim
    V = c.V("Lagrange", 1, shape=(g,))
    u = Coefficient(V)
    v = TestFunction(V)
    du = TrialFunction(V)
    mu = Constant(c.mesh)
    lam = Constant(c.mesh)
    F = ufl.Identity(g) + grad(u)
    Cc = F.T * F
    J = det(F)
    psi = (mu / 2) * (tr(Cc) - g) - mu * ln(J) + (lam / 2) * ln(J) ** 2
    Pi = psi * dx
    Fv = derivative(Pi, u, v)
    return derivative(Fv, u, du)


@builder
def jacobian_drop(c):
    """Coefficients that disappear under differentiation: F depends on f,g,h; J only on g."""
    V = c.V("Lagrange", 1)
    f, g, h = Coefficient(V), Coefficient(V), Coefficient(V)
    v = TestFunction(V)
    du = TrialFunction(V)
    F = (f * v + 0.5 * g * g * inner(grad(g), grad(v)) + h * v) * dx
    return derivative(F, g, du)


@builder
def multi_rule(c, d1=1, d2=4, scheme2="default"):
    V = c.V("Lagrange", 2)
    f = Coefficient(V)
    v = TestFunction(V)
    return exp(f) * v * dx(metadata={"quadrature_degree": d1}) + sin(f) * f * v * dx(
        metadata={"quadrature_degree": d2, "quadrature_rule": scheme2}
    )


@builder
def multi_rule_vertex(c, d1=3):
    V = c.V("Lagrange", 1)
    f = Coefficient(V)
    u, v = TrialFunction(V), TestFunction(V)
    return exp(f) * u * v * dx(metadata={"quadrature_degree": d1}) + cos(f) * u * v * dx(
        metadata={"quadrature_rule": "vertex", "quadrature_degree": 1}
    )


@builder
def manifold_mass(c, degree=2):
    V = c.V("Lagrange", degree)
    u, v = TrialFunction(V), TestFunction(V)
    return (inner(u, v) + inner(grad(u), grad(v))) * dx


@builder
def tp_mass_stiff(c, degree=2, blocked=False):
    el = basix.create_tp_element(basix.ElementFamily.P, basix.CellType[c.cell], degree, basix.LagrangeVariant.gll_warped)
    e = basix.ufl.wrap_element(el)
    if blocked:
        e = basix.ufl.blocked_element(e, shape=(c.gdim,))
    V = c.space(e)
    u, v = TrialFunction(V), TestFunction(V)
    f = Coefficient(V)
    if blocked:
        return (inner(u, v) + inner(f, f) * inner(grad(u), grad(v))) * dx
    return (inner(u, v) + (1 + f * f) * inner(grad(u), grad(v))) * dx


@builder
def spatial_tables(c, degree=2):
    """Forms whose tables are zeros/ones/piecewise/uniform: DG0 x P1 derivatives etc."""
    V0 = c.V("DG", 0)
    V1 = c.V("Lagrange", 1)
    V2 = c.V("Lagrange", degree)
    u, v = TrialFunction(V2), TestFunction(V1)
    k = Coefficient(V0)
    g = Coefficient(V1)
    return (k * inner(grad(u), grad(v)) + inner(grad(g), grad(u)) * v + k * g * u.dx(0) * v) * dx


# ============================================================================ facet / vertex forms
@builder
def facet_flux(c, degree=2):
    V = c.V("Lagrange", degree)
    u, v = TrialFunction(V), TestFunction(V)
    f = Coefficient(V)
    return exp(f) * inner(dot(grad(u), c.n), v) * ds


@builder
def facet_plain(c, degree=1):
    """Facet form without normals (also valid on prisms: two kernels per integral)."""
    V = c.V("Lagrange", degree)
    u, v = TrialFunction(V), TestFunction(V)
    f = Coefficient(V)
    return inner(u, v) * ds + (1 + f * f) * u * v * ds(1) + c.x[0] * u * v * ds((2, 3))


@builder
def facet_geom(c):
    V = c.V("Lagrange", 1)
    v = TestFunction(V)
    f = Coefficient(V)
    x = c.x
    fa = FacetArea(c.mesh) if c.cell in SIMPLICES and c.cdeg == 1 else 1.0
    return (f * inner(c.n, grad(v)) + x[0] * fa * v + inner(c.n, c.n) * f * v) * ds


@builder
def facet_piola(c, family="RT", degree=1):
    V = c.V(family, degree)
    Q = c.V("DG", 1)
    u = TrialFunction(V)
    q = TestFunction(Q)
    g = Coefficient(V)
    if family in ("N1curl",):
        t = ufl.perp(c.n) if c.tdim == 2 else ufl.cross(c.n, g)
        return (inner(u, t) * q) * ds if c.tdim == 2 else (inner(ufl.cross(c.n, u), t) * q) * ds
    return (inner(u, c.n) * q + inner(g, c.n) * inner(u, g) * q) * ds


@builder
def dg_jump(c, degree=1, vec=False):
    V = c.V("DG", degree, shape=(c.gdim,) if vec else None)
    u, v = TrialFunction(V), TestFunction(V)
    f = Coefficient(V)
    n = c.n
    x = c.x
    if vec:
        return (inner(jump(u), jump(v)) + inner(f("+"), n("+")) * inner(avg(u), v("-")) + inner(avg(grad(u)), outer(v("+"), n("+")))) * dS
    return (
        f("-") * inner(jump(u, n), avg(grad(v))) + x[0]("-") * inner(u("+"), v("-")) + 2 * f("+") * inner(u("-"), v("-"))
    ) * dS


@builder
def dg_one_sided(c, degree=1):
    """Only one restriction appears: a coefficient on '-' tested on '+'."""
    V = c.V("DG", degree)
    v = TestFunction(V)
    f = Coefficient(V)
    return f("-") * f("-") * v("+") * dS + inner(grad(f)("-"), c.n("-")) * v("-") * dS


@builder
def int_literals(c, degree=1):
    """Sub-expressions whose operands are all integer literals (branches of conditionals): their values are still real numbers
    (no integer division, no truncation of math functions)."""
    V = c.V("Lagrange", degree)
    v = TestFunction(V)
    f = Coefficient(V)
    k = Constant(c.mesh)
    cnd = ufl.lt(f, 0.1)
    c13 = conditional(cnd, 1, 3)
    c23 = conditional(ufl.gt(f, -0.2), 2, 3)
    t = (c13 / 2 + sqrt(c23) + c13 / c23 + exp(conditional(cnd, -1, 1)) + abs(conditional(cnd, -3, 2)) / 4 + conditional(cnd, 1, 2) ** 2 / 3
         + ufl.max_value(c13, c23) / 7 + conditional(cnd, 7, 2) / k + f * conditional(cnd, 5, 2) / 3)
    return t * v * dx + (c13 / 2) * v * ds


@builder
def cond_ties(c, degree=1, facets=False):
    """Every comparison operator with operands that can be exactly equal at run time: the same subexpression on both
    sides, two constants, a constant against a literal, a coefficient against literal zero.  With the fixed data
    (all coefficient dofs 0, all constants 2.0; see data_fixed) every comparison is decided at equality, exactly on
    both sides; with random data none is.  Distinct branch values identify which operator went wrong."""
    V = c.V("Lagrange", degree)
    v = TestFunction(V)
    f = Coefficient(V)
    c1, c2 = Constant(c.mesh), Constant(c.mesh)
    ops = [ufl.lt, ufl.le, ufl.gt, ufl.ge, ufl.eq, ufl.ne]
    t = 0
    for k, op in enumerate(ops):
        t = t + conditional(op(f, 0.0), 2.0 + k, 11.0 + 3 * k)
        t = t + conditional(op(0.0, f), 3.5 + k, 17.0 + 5 * k)
        t = t + conditional(op(c1, c2), 1.25 + k, 7.0 + 2 * k)
        t = t + conditional(op(c1, 2.0), 0.5 + k, 23.0 + k)
        t = t + conditional(op(f, f), 1.5 * (k + 1), 29.0 + 7 * k)
        t = t + conditional(ufl.Or(op(c1, c2), ufl.Not(op(c2, c1))), 0.75 + k, 31.0 + k)
        t = t + conditional(ufl.And(op(c1, 2.0), op(f, 0.0)), 0.3 + k, 37.0 + 2 * k)
    form = t * v * dx
    if facets:
        form = form + t * v * ds + t("+") * v("-") * dS
    return form


@builder
def zero_data_math(c, degree=1):
    """Math functions and operators at the special value 0 (use with data_fixed w=0: a zero initial guess)."""
    V = c.V("Lagrange", degree)
    v = TestFunction(V)
    f = Coefficient(V)
    c1 = Constant(c.mesh)
    t = (sqrt(f * f) + abs(f) + exp(f) + cos(f) + ufl.sinh(f) + ufl.atan(f) + ufl.atan2(f, c1) + ufl.max_value(f, -f) + ufl.min_value(f, 0.0)
         + ufl.sign(f) + (1.0 + f) ** 2 + f ** 2 + ufl.erf(f) + ufl.ln(1.0 + f * f) + c1 / (1.0 + f))
    return t * v * dx


@builder
def dg_functional(c):
    V = c.V("Lagrange", 2)
    f = Coefficient(V)
    n = c.n
    h = CellDiameter(c.mesh) if c.cdeg == 1 else 1.0
    return (jump(grad(f), n) ** 2 * avg(h) if c.cdeg == 1 else jump(grad(f), n) ** 2) * dS


@builder
def dS_piola(c, family="RT", degree=1):
    V = c.V(family, degree)
    u, v = TrialFunction(V), TestFunction(V)
    n = c.n
    return (inner(u("+"), n("+")) * inner(n("-"), v("-")) + inner(jump(u), jump(v))) * dS


@builder
def vertex_form(c, degree=2):
    V = c.V("Lagrange", degree)
    u, v = TrialFunction(V), TestFunction(V)
    f = Coefficient(V)
    return (1 + f * f) * u * v * ufl.dP + c.x[0] * u * v * ufl.dP


@builder
def all_types(c, ids=True):
    V = c.V("Lagrange", 1)
    u, v = TrialFunction(V), TestFunction(V)
    f = Coefficient(V)
    g = Coefficient(V)
    k = Constant(c.mesh)
    a = f * u * v * dx + k * inner(grad(u), grad(v)) * dx(1) + g * u * v * ds(2) + u * v * ds
    a += avg(f) * jump(u) * jump(v) * dS(3) + g("+") * u("+") * v("-") * dS
    if ids:
        a += k * f * u * v * dx((4, 5)) + u * v * ds((2, 7))
    return a


# ============================================================================ expressions
def _ref_points(cell, kind="interior", n=5, seed=0):
    rng = np.random.default_rng([seed, 77])
    td = TDIM[cell]
    if kind == "vertices":
        return np.asarray(basix.geometry(basix.CellType[cell]), dtype=float)
    if kind == "lagrange2":
        return np.asarray(basix.ufl.element("Lagrange", cell, 2).basix_element.points)
    pts, _ = basix.make_quadrature(basix.CellType[cell], 8)
    idx = rng.permutation(len(pts))[:n]
    return np.ascontiguousarray(pts[np.sort(idx)])


@builder
def expr_suite(c, which="rank1_vector", pts="interior", npts=5):
    g = c.gdim
    V = c.V("Lagrange", 2)
    Qs = c.V("N1curl", 1) if c.cell in ("triangle", "tetrahedron") else c.V("Lagrange", 1, shape=(g,))
    u = TrialFunction(V)
    f = Coefficient(V)
    q = Coefficient(Qs)
    K = Constant(c.mesh, shape=(g, g))
    k = Constant(c.mesh)
    x = c.x
    e = {
        "rank1_vector": lambda: dot(K, grad(u)) * f + u * q,
        "rank0_tensor": lambda: outer(q, grad(f)) + sin(x[0]) * K,
        "rank1_tensor": lambda: outer(grad(u), q),
        "rank0_scalar": lambda: inner(q, q) + f + k,
        "rank0_vector_x": lambda: x * f + grad(f),
        "rank0_const": lambda: K * k,
        "rank0_jac": lambda: ufl.Jacobian(c.mesh) * f,
        "rank1_scalar": lambda: u * exp(f) + inner(grad(u), q),
    }[which]()
    return (e, _ref_points(c.cell, pts, npts))


@builder
def expr_zero(c):
    """An expression that is identically zero (its kernel body starts directly with the point loop)."""
    return (ufl.zero((1,)), _ref_points(c.cell, "interior", 5))


@builder
def expr_dropped(c, which=0):
    """Expressions in which UFL's preprocessing eliminates a coefficient (or constant) that was created BEFORE one that
    survives: original_coefficient_positions / constant offsets must still refer to the expression the user passed."""
    D0 = c.V("DG", 0)
    V = c.V("Lagrange", 1)
    f0 = Coefficient(D0)
    k0 = Constant(c.mesh)
    g = Coefficient(V)
    h = Coefficient(V)
    k1 = Constant(c.mesh)
    x = c.x
    u = TrialFunction(V)
    e = {0: lambda: g * (x[0] ** 2 + f0).dx(0),                      # f0 only under a derivative
         1: lambda: h * (f0 + x[0]).dx(0) + g * (1 + h),               # first of three dropped
         2: lambda: k1 * g * (x[0] ** 2 + k0).dx(0),                   # a constant dropped before a used one
         3: lambda: u * h * (f0 * f0 + x[0]).dx(0) + u * g,            # rank 1
         4: lambda: ufl.as_vector([g * (f0 + x[0]).dx(0), h * k1])}[which]()
    return (e, _ref_points(c.cell, "interior", 4))


@builder
def expr_facet(c, which="normal", pts_kind="quadrature"):
    V = c.V("Lagrange", 2)
    f = Coefficient(V)
    n = c.n
    u = TrialFunction(V)
    e = {"normal": lambda: n * f, "flux": lambda: dot(grad(f), n), "x": lambda: c.x,
         "rank1_u": lambda: u * f, "rank1_flux": lambda: dot(grad(u), n) * (1 + f), "rank1_grad": lambda: grad(u)}[which]()
    ft = basix.cell.subentity_types(basix.CellType[c.cell])[c.tdim - 1][0]
    pts, _ = basix.make_quadrature(ft, 3)
    if pts_kind != "quadrature" and c.tdim == 3:
        # point sets that are invariant under SOME facet permutations only (all on the diagonal s == t: fixed by the reflection, moved
        # by the rotations; all on the axis t == 0)
        pts = {"diagonal": np.array([[0.2, 0.2], [0.4, 0.4], [0.1, 0.1]]), "axis": np.array([[0.2, 0.0], [0.7, 0.0]]),
               "one_point": np.array([[0.3, 0.3]])}[pts_kind]
    return (e, np.ascontiguousarray(pts))


# ============================================================================ random generator
class Gen:
    """Seeded, type-directed generator of forms that are linear in each argument."""

    def __init__(self, ctx: Ctx, rng, itype="cell", arity=2, complex_ok=False):
        self.c, self.rng, self.itype, self.arity = ctx, rng, itype, arity
        self.complex_ok = complex_ok
        self.coeffs = []
        self.consts = []
        self.tags = set()

    def pick(self, xs):
        return xs[int(self.rng.integers(len(xs)))]

    def space(self, allow_vector=True, allow_piola=True, for_arg=True):
        c, r = self.c, self.rng
        kinds = ["P"] * 3 + ["DG"]
        if c.cell in ("prism", "pyramid"):
            kinds = ["P", "P", "DG"]
            allow_vector = allow_vector and c.cell == "prism"
            allow_piola = False
        if allow_vector:
            kinds += ["vecP", "vecP"]
            if c.cell not in ("prism", "pyramid"):
                kinds += ["mixed"]
        if allow_piola and c.cell in ("triangle", "tetrahedron") and c.gdim == c.tdim:
            kinds += ["N1curl", "RT"]
        k = self.pick(kinds)
        if self.itype == "vertex" and k == "DG":
            k = "P"
        maxdeg = 2 if c.tdim == 3 else 3
        deg = int(r.integers(1, maxdeg + 1))
        self.tags.add("space:" + k)
        if k == "P":
            return c.V("Lagrange", deg), "scalar"
        if k == "DG":
            return c.V("DG", int(r.integers(0, maxdeg))), "scalar"
        if k == "vecP":
            return c.V("Lagrange", min(deg, 2), shape=(c.gdim,)), "vector"
        if k == "mixed":
            W = basix.ufl.mixed_element([c.el("Lagrange", min(deg, 2), shape=(c.gdim,)), c.el("Lagrange", 1)])
            return c.space(W), "mixed"
        if k == "N1curl":
            return c.V("N1curl", min(deg, 2)), "vector"
        return c.V("RT", min(deg, 2)), "vector"

    def coefficient(self, kind="scalar"):
        for f, k in self.coeffs:
            if k == kind and self.rng.random() < 0.5:
                return f
        c = self.c
        if kind == "scalar":
            fam = self.pick(["Lagrange", "Lagrange", "DG", "DG0", "Bubble"]) if self.itype != "vertex" else "Lagrange"
            if fam == "DG0":
                V = c.V("DG", 0)
            elif fam == "Bubble" and c.cell in ("triangle", "tetrahedron", "interval") and self.itype == "cell":
                V = c.space(basix.ufl.enriched_element([c.el("Lagrange", 1), c.el("Bubble", c.tdim + 1)]))
            else:
                V = c.V("Lagrange" if fam in ("DG0", "Bubble") else fam, int(self.rng.integers(1, 3)))
            self.tags.add("coef:" + fam)
        else:
            fam = self.pick(["vecP", "vecP", "piola", "vecDG"])
            if fam == "piola" and c.cell in ("triangle", "tetrahedron") and c.gdim == c.tdim:
                V = c.V(self.pick(["N1curl", "RT", "BDM"]), 1)
            elif fam == "vecDG" and self.itype != "vertex":
                V = c.V("DG", 1, shape=(c.gdim,))
            else:
                V = c.V("Lagrange", 1, shape=(c.gdim,))
            self.tags.add("coef:" + fam)
        f = Coefficient(V)
        self.coeffs.append((f, kind))
        return f

    def constant(self, shape=()):
        k = Constant(self.c.mesh, shape=shape)
        self.consts.append(k)
        return k

    def restrict(self, e):
        if self.itype != "interior_facet":
            return e
        return e(self.pick(["+", "-"]))

    def scalar_fn(self, depth=0):
        """A smooth scalar factor g(coefficients, constants, x, n, h)."""
        r = self.rng
        c = self.c
        choices = ["const", "coef", "x", "lit", "fn", "prod", "sum", "cond"]
        if depth > 1:
            choices = ["const", "coef", "x", "lit"]
        k = self.pick(choices)
        self.tags.add("g:" + k)
        if k == "const":
            if r.random() < 0.4:  # one entry of a (non-square) tensor constant: row-major flattening
                sh = [(2, 3), (3, 2), (3,), (2, 2, 3)][int(r.integers(4))]
                self.tags.add("g:tensor_const")
                return self.constant(sh)[tuple(int(r.integers(n)) for n in sh)]
            return self.constant()
        if k == "lit":
            return float(np.round(r.uniform(0.5, 2.0), 3))
        if k == "coef":
            return self.restrict(self.coefficient("scalar"))
        if k == "x":
            return self.restrict(c.x[int(r.integers(c.gdim))])
        if k == "prod":
            return self.scalar_fn(depth + 1) * self.scalar_fn(depth + 1)
        if k == "sum":
            return self.scalar_fn(depth + 1) + self.scalar_fn(depth + 1)
        a = self.scalar_fn(depth + 1)
        if k == "cond":
            b = self.scalar_fn(depth + 1)
            op = self.pick([ufl.lt, ufl.gt, ufl.le, ufl.ge])
            self.tags.add("cond")
            if self.complex_ok:
                return conditional(op(ufl.real(a), ufl.real(b)), a, 2.0 * b)
            return conditional(op(a, b), a, 2.0 * b)
        fn = self.pick(["sin", "cos", "exp", "sqrt1", "ln1", "tanh", "abs", "pow", "atan", "erf", "min", "max", "div"])
        self.tags.add("fn:" + fn)
        if fn == "sin":
            return sin(a)
        if fn == "cos":
            return cos(a)
        if fn == "exp":
            return exp(0.3 * a)
        if fn == "sqrt1":
            return sqrt(1 + a * ufl.conj(a) if self.complex_ok else 1 + a * a)
        if fn == "ln1":
            return ln(3 + a * ufl.conj(a) if self.complex_ok else 3 + a * a)
        if fn == "tanh":
            return tanh(a)
        if fn == "abs":
            return abs(a)
        if fn == "pow":
            return (a * a + 1.5) ** float(np.round(r.uniform(0.5, 2.5), 2)) if not self.complex_ok else a**2
        if fn == "atan":
            return ufl.atan(a) if not self.complex_ok else a
        if fn == "erf":
            return ufl.erf(a) if not self.complex_ok else a
        if fn == "min":
            return ufl.min_value(a, self.scalar_fn(depth + 1)) if not self.complex_ok else a
        if fn == "max":
            return ufl.max_value(a, self.scalar_fn(depth + 1)) if not self.complex_ok else a
        return a / (2.5 + (a * a if not self.complex_ok else a * ufl.conj(a)))

    def ops_for(self, w, kind):
        """Candidate differential operators D(w) with their value kind."""
        c = self.c
        out = []
        if kind == "scalar":
            out += [("id", w, "scalar"), ("grad", grad(w), "vector"), ("dx", w.dx(int(self.rng.integers(c.gdim))), "scalar")]
        elif kind == "vector":
            out += [("id", w, "vector"), ("comp", w[int(self.rng.integers(c.gdim))], "scalar")]
            out += [("div", div(w), "scalar"), ("grad", grad(w), "tensor"), ("symgrad", sym(grad(w)), "tensor")]
            if c.gdim == 3 and c.tdim == 3:
                out += [("curl", curl(w), "vector")]
        return out

    def arg_parts(self, V, kind, which):
        a = (TestFunction if which == 0 else TrialFunction)(V)
        if kind == "mixed":
            parts = ufl.split(a)
            return [(parts[0], "vector"), (parts[1], "scalar")]
        return [(a, kind)]

    def term(self, args):
        """One integrand: g * <D1(arg1 or coefficient), D0(arg0)> (or g alone for arity 0)."""
        g = self.scalar_fn()
        factors = []
        for parts in args:
            w, kind = self.pick(parts)
            name, e, k2 = self.pick(self.ops_for(w, kind))
            self.tags.add("D:" + name)
            factors.append((self.restrict(e), k2))
        if len(factors) == 0:
            f = self.coefficient("scalar")
            return g * self.restrict(f)
        if len(factors) == 1:
            e, k = factors[0]
            return g * self.contract(e, k, None, None)
        (e0, k0), (e1, k1) = factors
        return g * self.contract(e1, k1, e0, k0)

    def fill(self, kind):
        """A coefficient-based expression of the given value kind (to contract with)."""
        c = self.c
        if kind == "scalar":
            return None
        if kind == "vector":
            w = self.pick(["gradf", "vecf", "n", "x"])
            if w == "n" and self.itype in ("exterior_facet", "interior_facet"):
                return self.restrict(c.n)
            if w == "vecf":
                return self.restrict(self.coefficient("vector"))
            if w == "x":
                return self.restrict(c.x)
            return self.restrict(grad(self.coefficient("scalar")))
        K = self.constant((c.gdim, c.gdim))
        return K

    def contract(self, e1, k1, e0, k0):
        if e0 is None:
            fl = self.fill(k1)
            if fl is None:
                return ufl.conj(e1) if self.complex_ok else e1
            return inner(fl, e1) if self.complex_ok else inner(e1, fl)
        if k0 == k1:
            return inner(e1, e0)
        # different kinds: reduce each to a scalar with a filler
        f1, f0 = self.fill(k1), self.fill(k0)
        s1 = e1 if f1 is None else inner(e1, f1)
        s0 = e0 if f0 is None else inner(f0, e0) if self.complex_ok else inner(e0, f0)
        return s1 * (ufl.conj(s0) if self.complex_ok and k0 == "scalar" else s0)

    def form(self, nterms=None, with_ids=False, with_md=False):
        r = self.rng
        args = []
        if self.arity >= 1:
            V0, k0 = self.space()
            args.append(self.arg_parts(V0, k0, 0))
            if self.arity == 2:
                V1, k1 = (V0, k0) if r.random() < 0.6 else self.space()
                args.append(self.arg_parts(V1, k1, 1))
        nterms = nterms or int(r.integers(1, 4))
        form = None
        for _ in range(nterms + 3):
            if form is not None and _ >= nterms:
                break
            e = self.term(args)
            if isinstance(e, ufl.classes.Zero) or not ufl.domain.extract_domains(e):
                continue  # e.g. the gradient of a DG0 function is simplified to zero by UFL at construction
            kw = {}
            if with_ids and r.random() < 0.5:
                kw["subdomain_id"] = int(r.integers(0, 4))
            if with_md and r.random() < 0.5:
                md = {"quadrature_degree": int(r.integers(1, 6))}
                if r.random() < 0.2 and self.itype == "cell":
                    md["quadrature_rule"] = self.pick(["GLL", "Gauss-Jacobi"])
                    md["quadrature_degree"] = int(r.integers(2, 5))
                kw["metadata"] = md
            t = e * measure(self.itype, **kw)
            form = t if form is None else form + t
        return form


@builder
def rand(c, seed=(0,), itype="cell", arity=2, complex_ok=False, with_ids=False, with_md=False, nterms=None):
    rng = np.random.default_rng(list(seed))
    g = Gen(c, rng, itype, arity, complex_ok)
    f = g.form(nterms, with_ids, with_md)
    b = Built(c, forms=[f])
    b.tags = sorted(g.tags)
    return b


@builder
def rand_expr(c, seed=(0,), rank=0, shape="scalar", npts=4, facet=False, complex_ok=False, nexpr=1):
    rng = np.random.default_rng(list(seed))
    g = Gen(c, rng, "exterior_facet" if facet else "cell", arity=rank, complex_ok=complex_ok)
    out = []
    for _ in range(nexpr):
        sc = g.scalar_fn()
        if rank == 1:
            V, kind = g.space(allow_vector=True, allow_piola=True)
            u = TrialFunction(V)
            parts = [(ufl.split(u)[0], "vector"), (ufl.split(u)[1], "scalar")] if kind == "mixed" else [(u, kind)]
            w, k = g.pick(parts)
            cands = [(e, k2) for (_, e, k2) in g.ops_for(w, k)]
        else:
            f = g.coefficient("scalar")
            q = g.coefficient("vector")
            cands = [(f, "scalar"), (grad(f), "vector"), (q, "vector"), (grad(q), "tensor"), (c.x, "vector"),
                     (outer(q, grad(f)), "tensor"), (g.constant((c.gdim, c.gdim)), "tensor"), (g.constant((c.gdim,)), "vector")]
            if facet:
                cands += [(c.n, "vector"), (outer(c.n, q), "tensor")]
        want = shape
        pool = [e for e, k2 in cands if k2 == want]
        if not pool:
            e0, k0 = g.pick(cands)
            fl = g.fill(k0)
            e0 = e0 if fl is None else inner(e0, fl)
            if want == "vector":
                e0 = e0 * g.fill("vector")
            elif want == "tensor":
                e0 = e0 * g.fill("tensor")
            e = e0
        else:
            e = g.pick(pool)
        e = sc * e
        if facet:
            ft = basix.cell.subentity_types(basix.CellType[c.cell])[c.tdim - 1][0]
            p, _ = basix.make_quadrature(ft, 4)
            pts = np.ascontiguousarray(p[: max(1, npts)])
        else:
            pts = _ref_points(c.cell, "interior", npts, seed=int(rng.integers(1 << 30)))
        out.append((e, pts))
    b = Built(c, expressions=out)
    b.tags = sorted(g.tags)
    return b


@builder
def dispatch(c, seed=(0,), nint=6, types=("cell", "exterior_facet", "interior_facet", "vertex"), arity=2, nforms=1,
             explicit_degree=True, degree=1):
    """Forms with arbitrary sets of integral types and subdomain ids (ints incl. 0 and large, tuples,
    everywhere, the same id repeated with different quadrature metadata)."""
    rng = np.random.default_rng(list(seed))
    V = c.V("Lagrange", degree)
    f, g = Coefficient(V), Coefficient(V)
    k = Constant(c.mesh)
    forms = []
    decl = []
    for fi in range(nforms):
        ar = arity if fi == 0 else int(rng.integers(0, 3))
        u, v = TrialFunction(V), TestFunction(V)
        form = None
        d = []
        idpool = [0, 1, 2, 3, 7, 10, 12, 100, 1000000, 2**31 - 2]  # incl. ids whose decimal strings sort differently from the numbers
        for i in range(nint):
            t = types[int(rng.integers(len(types)))]
            r = rng.random()
            if r < 0.25:
                sid = None
            elif r < 0.75:
                sid = int(idpool[int(rng.integers(len(idpool)))])
            else:
                n = int(rng.integers(2, 4))
                sid = tuple(int(x) for x in rng.permutation(idpool)[:n])
            a = float(np.round(rng.uniform(0.5, 3.0), 3))
            R = (lambda e: e("+")) if t == "interior_facet" else (lambda e: e)
            coef = [lambda: a, lambda: a * exp(0.3 * R(f)), lambda: a * k * (1 + R(g) * R(g)), lambda: a * R(c.x[0])][int(rng.integers(4))]()
            if ar == 2:
                e = coef * inner(R(u), R(v)) if t != "interior_facet" or rng.random() < 0.5 else coef * inner(u("-"), v("+"))
            elif ar == 1:
                e = coef * (R(v) if t != "interior_facet" or rng.random() < 0.5 else v("-"))
            else:
                e = coef * R(f)
            kw = {}
            if sid is not None:
                kw["subdomain_id"] = sid
            if explicit_degree:
                kw["metadata"] = {"quadrature_degree": int(rng.integers(1, 5))}
            term = e * measure(t, **kw)
            d.append({"type": t, "sid": "everywhere" if sid is None else sid, "degree": kw.get("metadata", {}).get("quadrature_degree")})
            form = term if form is None else form + term
        forms.append(form)
        decl.append(d)
    b = Built(c, forms=forms)
    b.declared = decl
    return b


@builder
def packing(c, seed=(0,), ncoef=6, nconst=3, arity=1, use_dS=True, mode="subsets"):
    """Forms whose integrals use different coefficient subsets, with coefficients that drop out
    (differentiation, replace, zero factors) and constants created in shuffled order."""
    rng = np.random.default_rng(list(seed))
    els = [c.el("Lagrange", 1), c.el("Lagrange", 2), c.el("DG", 1), c.el("Lagrange", 1, shape=(c.gdim,))]
    if c.cell in ("triangle", "tetrahedron"):
        els.append(basix.ufl.mixed_element([c.el("Lagrange", 1, shape=(c.gdim,)), c.el("Lagrange", 1)]))
    # constants first/last/interleaved with coefficients: creation order = count order
    consts = []
    coefs = []
    order = list(rng.permutation(ncoef + nconst))
    # constant shapes include non-square tensors and rank 3 (row-major flattening is only visible when extents differ)
    shapes = [(), (c.gdim,), (c.gdim, c.gdim), (2, 3), (3, 2), (2, 3, 2)]
    for o in order:
        if o < ncoef:
            coefs.append(Coefficient(c.space(els[int(rng.integers(len(els)))])))
        else:
            consts.append(Constant(c.mesh, shape=shapes[int(rng.integers(len(shapes)))]))
    V = c.V("Lagrange", 1)
    u, v = TrialFunction(V), TestFunction(V)

    def scal(f, R=lambda e: e):
        sh = f.ufl_shape
        if sh == ():
            return R(f)
        if len(sh) == 1:
            return R(f)[0] + 0.5 * R(f)[sh[0] - 1]
        if len(sh) == 2:
            return R(f)[0, 0] + R(f)[sh[0] - 1, 0] + 0.25 * R(f)[sh[0] - 1, sh[1] - 1]
        last = tuple(n - 1 for n in sh)
        return R(f)[(0,) * len(sh)] + R(f)[(sh[0] - 1,) + (0,) * (len(sh) - 1)] + 0.25 * R(f)[last] + 0.125 * R(f)[(0, sh[1] - 1) + (0,) * (len(sh) - 2)]

    def integrand(sub_co, sub_k, R=lambda e: e):
        e = 1.0
        for f in sub_co:
            e = e * (1.5 + scal(f, R))
        for k in sub_k:
            e = e * (2.0 + scal(k))
        if arity == 2:
            return e * inner(R(u), R(v))
        if arity == 1:
            return inner(e, R(v))
        return e

    def pick(xs, lo=0):
        if arity == 0 and xs is coefs:
            lo = 1
        n = int(rng.integers(lo, min(len(xs), 3) + 1))
        idx = sorted(rng.permutation(len(xs))[:n])
        return [xs[i] for i in idx]

    form = integrand(pick(coefs, 1), pick(consts), ) * dx
    if mode == "rules":
        # several quadrature rules inside ONE kernel, each rule with its own coefficient subset (flags are per kernel, not per rule)
        for q in (1, 3, 4):
            form += integrand(pick(coefs, 1), pick(consts)) * dx(metadata={"quadrature_degree": q})
            form += integrand(pick(coefs, 1), pick(consts)) * ds(metadata={"quadrature_degree": q})
        form += integrand(pick(coefs, 1), pick(consts)) * dx(metadata={"quadrature_rule": "vertex", "quadrature_degree": 1})
    form += integrand(pick(coefs, 1), pick(consts)) * ds
    form += integrand(pick(coefs), pick(consts)) * dx(1)
    if use_dS:
        side = ["+", "-"][int(rng.integers(2))]
        form += integrand(pick(coefs, 1), pick(consts), lambda e: e(side)) * dS
    if mode == "derivative" and arity >= 1:
        # differentiate w.r.t. one scalar coefficient: others may drop out
        cand = [f for f in form.coefficients() if f.ufl_shape == () and f.ufl_function_space().ufl_element() == V.ufl_element()]
        if cand and arity == 1:
            F = form
            form = derivative(F, cand[0], TrialFunction(V))
    if mode == "replace":
        fs = [f for f in form.coefficients()]
        if len(fs) >= 2:
            a, b_ = fs[0], fs[-1]
            if a.ufl_function_space() == b_.ufl_function_space():
                form = ufl.replace(form, {a: b_})
    if mode == "elim_const" or rng.random() < 0.35:
        # a constant that only appears under a derivative is eliminated by UFL's preprocessing but is still part of the
        # original form's constants (and of the c array an assembler packs); put one before and one after the others
        sc = [k for k in consts if k.ufl_shape == ()]
        if sc:
            kel = sc[0]
            keep = [k for k in consts if k is not kel]
            e = (c.x[0] ** 2 + kel).dx(0)
            for k in keep:
                e = e * (2.0 + scal(k))
            ar = len(form.arguments())
            args_ = sorted(form.arguments(), key=lambda a_: a_.number())
            if ar == 1:
                form = form + e * args_[0] * dx
            elif ar == 2:
                form = form + e * inner(args_[1], args_[0]) * dx
            else:
                form = form + e * dx
    if mode == "zero":
        fs = [f for f in coefs if f.ufl_shape == ()]
        if fs:
            form = form + (fs[0] - fs[0]) * integrand([fs[0]], []) * dx
    b = Built(c, forms=[form])
    b.all_coefficients = coefs
    return b


@builder
def complex_ops(c, which=0):
    """Forms exercising conj/real/imag/abs, complex literals and complex math functions (sesquilinear)."""
    V = c.V("Lagrange", 2 if c.tdim < 3 else 1)
    u, v = TrialFunction(V), TestFunction(V)
    f = Coefficient(V)
    k = Constant(c.mesh)
    if which == 0:
        return (inner(grad(u), grad(v)) + (1 + 2j) * k * f * inner(u, v) + ufl.real(f) * ufl.imag(k) * abs(f) * u * ufl.conj(v)
                + sqrt(f * f + (3 + 1j)) * dot(grad(f), ufl.conj(grad(v))) * u) * dx
    if which == 1:
        return (exp(0.3 * f) * sin(f) * inner(u, v) + cos(k * f) * ufl.conj(f) * inner(u.dx(0), v)) * dx
    if which == 2:
        # linear form, complex literal, dot vs inner
        return (inner(f * (2.0 - 1.5j), v) + dot(grad(f), grad(ufl.conj(v))) + ufl.conj(k) * ufl.imag(f) * ufl.conj(v)) * dx
    if which == 3:
        # functional with abs, real, imag
        return (abs(f) ** 2 + ufl.real(k * f) + ufl.imag(f * f) + ufl.real(ln(f * ufl.conj(f) + 2.0))) * dx
    if which == 4:
        # derivative in complex mode
        F = inner((1 + f * f) * grad(f), grad(v)) * dx
        return derivative(F, f, u)
    if which == 6:
        # a non-real factor INSIDE the conjugated (test) slot
        g = Coefficient(V)
        return inner(u, k * f * v) * dx + inner(grad(u), (2.0 + 1j) * g * grad(v)) * dx
    if which == 7:
        g = Coefficient(V)
        return inner(g, f * v) * dx + u * ufl.conj(k * f * v) * dx if False else inner(g, f * v) * dx
    if which == 8:
        # powers of a complex base with real, non-integer exponents (cpow, not pow of the real part)
        return (f ** 2.5 + (f * f + 2j) ** 1.5 + sqrt(f) + abs(f) ** 0.5) * inner(u, v) * dx
    if which == 9:
        # literal non-integer exponents only: UFL's degree estimation recurses without end on non-constant exponents
        return inner(f ** 1.5 + (f + 1j) ** 0.5 + (k * f) ** 2.5 + (c.x[0] + f) ** 0.75 + ufl.conj(f) ** 1.25, v) * dx
    if which == 10:
        # purely imaginary and negative-imaginary literals as divisors, exponent bases and subtrahends (literal printing must be atomic)
        return ((f / 2j) * inner(u, v) + inner(grad(u), grad(v)) / (-4j) + (c.x[0] / 3j - 2j) * f * inner(u, v) + (k - 1j) / (0.5j) * inner(u, v)) * dx
    if which == 5:
        n = c.n
        return (inner(jump(u), jump(v)) + (0.5 + 1j) * inner(avg(grad(u)), n("+")) * ufl.conj(jump(v)) + f("+") * ufl.conj(f("-")) * inner(u("+"), v("-"))) * dS
    raise ValueError(which)


@builder
def diag_dropped(c, what="constant"):
    """Taylor-Hood bilinear form in which a constant (or a coefficient) occurs only in an off-diagonal block and another one,
    created later, in a diagonal block (part='diagonal' compiles the diagonal blocks only)."""
    W = c.space(basix.ufl.mixed_element([c.el("Lagrange", 2, shape=(c.gdim,)), c.el("Lagrange", 1)]))
    u, p_ = ufl.split(TrialFunction(W))
    v, q = ufl.split(TestFunction(W))
    Q = c.V("Lagrange", 1)
    c0, c1 = Constant(c.mesh), Constant(c.mesh)
    w0, w1 = Coefficient(Q), Coefficient(Q)
    a = inner(grad(u), grad(v)) * dx
    if what == "degree":
        # the off-diagonal term decides the estimated quadrature degree; the diagonal term is not polynomial
        h3 = Coefficient(c.V("Lagrange", 3))
        return abs(0.4 - w0) * inner(p_, q) * dx + inner(u, v) * dx + grad(q)[0] * div(u) * ln(3.0 + h3 * h3) * dx
    if what == "constant":
        a += c0 * inner(div(u), q) * dx + c1 * inner(p_, q) * dx
    else:
        a += w0 * inner(p_, div(v)) * dx + (1.0 + w1 * w1) * inner(u, v) * dx + inner(p_, q) * dx
    return a


@builder
def tp_forms(c, which="advection", degree=2):
    el = basix.create_tp_element(basix.ElementFamily.P, basix.CellType[c.cell], degree, basix.LagrangeVariant.gll_warped)
    V = c.space(basix.ufl.wrap_element(el))
    u, v = TrialFunction(V), TestFunction(V)
    f = Coefficient(V)
    if which == "advection":
        return (inner(dot(grad(f), grad(u)), v) + f * inner(u, v)) * dx
    if which == "linear":
        return (exp(0.3 * f) * inner(grad(f), grad(v)) + inner(f * f, v)) * dx
    return (f * f + inner(grad(f), grad(f))) * dx


# ============================================================================ C11 builders
@builder
def monomial(c, q=2, arity=0, itype="cell", scheme="default", md=True):
    """int prod_i x_i**e_i [v] with the exponents passed as a vector constant (one kernel per (cell,q))."""
    e = Constant(c.mesh, shape=(c.gdim,))
    x = c.x
    g = x[0] ** e[0]
    for i in range(1, c.gdim):
        g = g * x[i] ** e[i]
    meta = {"quadrature_degree": q}
    if scheme != "default":
        meta["quadrature_rule"] = scheme
    m = measure(itype, metadata=meta) if md else measure(itype)
    if arity == 0:
        return g * m
    v = TestFunction(c.V("Lagrange", 1))
    return g * v * m


@builder
def poly_nomd(c, alphas=((1, 0), (0, 2)), arity=1):
    """Polynomial integrand sum_k c_k x^alpha_k [v] WITHOUT metadata: the estimated degree must make it exact."""
    x = c.x
    ks = Constant(c.mesh, shape=(len(alphas),))
    g = 0
    for k, al in enumerate(alphas):
        t = ks[k]
        for i, a in enumerate(al):
            if a:
                t = t * x[i] ** int(a)
        g = g + t
    if arity == 0:
        return g * dx
    v = TestFunction(c.V("Lagrange", 1))
    return g * v * dx


@builder
def vertex_scheme(c, itype="cell"):
    x = c.x
    g = exp(0.3 * x[0]) * (1 + (x[c.gdim - 1]) ** 2)
    return g * measure(itype, metadata={"quadrature_rule": "vertex", "quadrature_degree": 1})


@builder
def rule_mix(c, rules=(("default", 1), ("default", 4)), shared=True, itype="cell", sid=None):
    """A sum of integrals over one subdomain, each with its own rule; integrands non-polynomial and (optionally)
    sharing sub-expressions."""
    V = c.V("Lagrange", 2)
    f = Coefficient(V)
    v = TestFunction(c.V("Lagrange", 1))
    R = (lambda e: e("+")) if itype == "interior_facet" else (lambda e: e)
    s = exp(0.5 * R(f)) if shared else None
    form = None
    for i, (scheme, q) in enumerate(rules):
        g = (s if shared else exp(0.5 * R(f) + 0.1 * i)) * sin(R(f) + 0.3 * i) + R(c.x[0]) ** 2 * (i + 1)
        md = {"quadrature_degree": q}
        if scheme != "default":
            md["quadrature_rule"] = scheme
        kw = {"metadata": md}
        if sid is not None:
            kw["subdomain_id"] = sid
        t = g * R(v) * measure(itype, **kw)
        form = t if form is None else form + t
    return form


def custom_rule(cellname, itype, which="unsorted_symmetric"):
    """User-supplied rules on the reference integration entity: symmetric as a set but stored unsorted, and non-symmetric."""
    ct = basix.CellType[cellname]
    et = ct if itype == "cell" else basix.cell.subentity_types(ct)[-2][0]
    d = len(basix.topology(et)) - 1
    simplex = et in (basix.CellType.interval, basix.CellType.triangle, basix.CellType.tetrahedron)
    if d == 1:
        P = {"unsorted_symmetric": ([[0.5], [0.1], [0.9]], [0.5, 0.25, 0.25]), "nonsymmetric": ([[0.2], [0.7], [0.45]], [0.5, 0.3, 0.2])}[which]
    elif d == 2 and which == "diagonal":  # all points on s == t: fixed by the reflection of the facet, moved by its rotations
        P = ([[0.2, 0.2], [0.4, 0.4], [0.1, 0.1]], [0.2, 0.2, 0.1] if simplex else [0.4, 0.4, 0.2])
    elif d == 2 and simplex:
        P = {"unsorted_symmetric": ([[1 / 3, 1 / 3], [0.6, 0.2], [0.2, 0.2], [0.2, 0.6]], [0.2, 0.1, 0.1, 0.1]),
             "nonsymmetric": ([[0.1, 0.2], [0.5, 0.3], [0.25, 0.6]], [0.2, 0.2, 0.1])}[which]
    elif d == 2:
        P = {"unsorted_symmetric": ([[0.5, 0.5], [0.9, 0.1], [0.1, 0.1], [0.1, 0.9], [0.9, 0.9]], [0.4, 0.15, 0.15, 0.15, 0.15]),
             "nonsymmetric": ([[0.1, 0.2], [0.7, 0.3], [0.25, 0.8]], [0.4, 0.35, 0.25])}[which]
    elif simplex:
        P = ([[0.25, 0.25, 0.25], [0.1, 0.2, 0.3], [0.5, 0.1, 0.1]], [0.08, 0.05, 0.0366])
    else:
        P = ([[0.5, 0.5, 0.5], [0.1, 0.2, 0.3], [0.8, 0.7, 0.1]], [0.5, 0.3, 0.2])
    return {"quadrature_rule": "custom", "quadrature_points": np.array(P[0], dtype=float), "quadrature_weights": np.array(P[1], dtype=float)}


@builder
def custom_quadrature(c, itype="cell", which="unsorted_symmetric", mix=False):
    """An integral with a user-supplied rule (optionally next to a default-rule integral of the same subdomain)."""
    V = c.V("Lagrange", 2)
    f = Coefficient(V)
    v = TestFunction(c.V("DG" if itype == "interior_facet" else "Lagrange", 1))
    R = (lambda e: e("+")) if itype == "interior_facet" else (lambda e: e)
    Rm = (lambda e: e("-")) if itype == "interior_facet" else (lambda e: e)
    g = exp(0.4 * R(f)) * (1.0 + Rm(c.x[0]) ** 2)
    form = g * Rm(v) * measure(itype, metadata=custom_rule(c.cell, itype, which))
    if mix:
        form = form + sin(R(f)) * R(v) * measure(itype, metadata={"quadrature_degree": 3})
    return form


@builder
def tp_rule_mix(c, rules=(("GLL", 3),), degree=2, bilinear=False):
    """rule_mix on tensor-product elements (usable with sum_factorization=True; needs tpmesh): non-polynomial integrands, each
    integral with its own scheme/degree."""
    el = basix.ufl.wrap_element(basix.create_tp_element(basix.ElementFamily.P, basix.CellType[c.cell], degree, basix.LagrangeVariant.gll_warped))
    V = c.space(el)
    f = Coefficient(V)
    v = TestFunction(V)
    u = TrialFunction(V)
    form = None
    for i, (scheme, q) in enumerate(rules):
        g = exp(0.5 * f + 0.1 * i) * sin(f + 0.3 * i) + c.x[0] ** 2 * (i + 1)
        md = {"quadrature_degree": q}
        if scheme != "default":
            md["quadrature_rule"] = scheme
        t = (g * u * v if bilinear else g * v) * dx(metadata=md)
        form = t if form is None else form + t
    return form


# ============================================================================ C13 near-miss builders
@builder
def nearmiss(c, literal=1.5, index=0, which_coef=0, degree=1, power=2, swap_creation=False, kind="form", family="Lagrange", variant=None,
             qdeg=None, scheme=None, itype="cell", sid=None, const_shape=None, const_index=0, conj_side=False, npts=3):
    """A small family of forms/expressions differing in exactly one feature (literal, component index,
    which of two same-space coefficients is used, element degree, integer power).  swap_creation changes only the
    creation order (object counters) of the two coefficients: the request is the same up to renumbering."""
    kw = {}
    if variant:
        kw["lagrange_variant"] = getattr(basix.LagrangeVariant, variant)
    V = c.V(family, degree, **kw)
    W = c.V("Lagrange", 1, shape=(c.gdim,))
    if swap_creation:
        g = Coefficient(V)
        f = Coefficient(V)
    else:
        f = Coefficient(V)
        g = Coefficient(V)
    q = Coefficient(W)
    fs = (f, g)
    a, b_ = fs[which_coef], fs[1 - which_coef]
    e = literal * a ** power * q[index] + sin(b_)
    if const_shape is not None:
        kc = Constant(c.mesh, shape=tuple(const_shape))
        e = e + (kc[tuple(int(i) for i in np.unravel_index(const_index, tuple(const_shape)))] if const_shape else kc)
    if kind == "form":
        v = TestFunction(V)
        md = {}
        if qdeg is not None:
            md["quadrature_degree"] = qdeg
        if scheme:
            md["quadrature_rule"] = scheme
        mkw = {"metadata": md} if md else {}
        if sid is not None:
            mkw["subdomain_id"] = tuple(sid) if isinstance(sid, list) else sid
        if itype == "interior_facet":
            return inner(e("+"), v("-") if conj_side else v("+")) * dS(**mkw)
        return inner(e, v) * measure(itype, **mkw)
    return (e * grad(a), _ref_points(c.cell, "interior", npts))


@builder
def one_point_mix(c, q_hi=3, q_lo=1, lo_first=True, degree=2, itype="cell", use_x=True):
    """Selective reduced integration: the same coefficient under a one-point rule and a higher rule."""
    V = c.V("Lagrange", degree)
    f = Coefficient(V)
    v = TestFunction(c.V("Lagrange", 1))
    R = (lambda e: e("+")) if itype == "interior_facet" else (lambda e: e)
    lo = 1.445 * R(f) * R(v) * measure(itype, metadata={"quadrature_degree": q_lo})
    g = R(f) * ((R(c.x[0]) + 1.0) if use_x else 1.0) * R(f)
    hi = g * R(v) * measure(itype, metadata={"quadrature_degree": q_hi})
    return lo + hi if lo_first else hi + lo


@builder
def two_one_point_rules(c, which="qelem", itype="cell"):
    """Two DIFFERENT one-point rules in one integral sharing a coefficient and the coordinates: the centroid rule of degree <= 1
    next to a one-point quadrature element / a user-supplied one-point rule / the other order."""
    V = c.V("Lagrange", 2)
    f = Coefficient(V)
    v = TestFunction(c.V("Lagrange", 1))
    ct = basix.CellType[c.cell]
    et = ct if itype == "cell" else basix.cell.subentity_types(ct)[-2][0]
    d = len(basix.topology(et)) - 1
    mid = np.asarray(basix.geometry(et)).mean(axis=0)
    pt = np.array([0.55 * mid + 0.45 * np.asarray(basix.geometry(et))[0]])  # not the centroid
    vol = basix.cell.volume(et)
    g = exp(0.5 * f) * (1.0 + c.x[0])
    if which == "qelem" and itype == "cell":
        qe = basix.ufl.quadrature_element(c.cell, value_shape=(), points=pt, weights=np.array([vol]))
        q = Coefficient(c.space(qe))
        return g * v * measure(itype, metadata={"quadrature_degree": 1}) + q * g * v * measure(itype)
    md = {"quadrature_rule": "custom", "quadrature_points": pt, "quadrature_weights": np.array([vol])}
    a, b_ = g * v * measure(itype, metadata={"quadrature_degree": 1}), 1.7 * g * g * v * measure(itype, metadata=md)
    return a + b_ if which != "custom_first" else b_ + a


@builder
def two_forms(c, degree=1):
    V = c.V("Lagrange", degree)
    u, v = TrialFunction(V), TestFunction(V)
    f = Coefficient(V)
    k = Constant(c.mesh)
    return [k * inner(grad(u), grad(v)) * dx + f * inner(u, v) * dx, exp(0.2 * f) * inner(f, v) * dx]


@builder
def bessel(c, kind="J", nu=1):
    V = c.V("Lagrange", 1)
    v = TestFunction(V)
    f = Coefficient(V)
    fn = {"J": ufl.bessel_J, "Y": ufl.bessel_Y, "I": ufl.bessel_I, "K": ufl.bessel_K}[kind]
    return fn(nu, 1.5 + 0.5 * f) * v * dx


# ============================================================================ C19 builders
@builder
def two_rules(c, r1=("default", 2), r2=("default", 3), itype="cell", same=False, arity=1):
    """Two integrals with different rules over the same subdomain sharing a coefficient (names embed the rule ids).
    same=True: the SAME integrand under both rules (identical factorisation graphs: per-rule caches keyed too coarsely clash)."""
    V = c.V("Lagrange", 1)
    f = Coefficient(V)
    v = TestFunction(V)
    if same:
        u = TrialFunction(V)
        g = f * u * v if arity == 2 else f * v
        return g * measure(itype, metadata={"quadrature_degree": int(r1[1]), **({"quadrature_rule": r1[0]} if r1[0] != "default" else {})}) + \
            g * measure(itype, metadata={"quadrature_degree": int(r2[1]), **({"quadrature_rule": r2[0]} if r2[0] != "default" else {})})
    def md(r):
        m = {"quadrature_degree": int(r[1])}
        if r[0] != "default":
            m["quadrature_rule"] = r[0]
        return m
    return f * v * measure(itype, metadata=md(r1)) + f * f * v * measure(itype, metadata=md(r2))


@builder
def unsupported(c, which="zero"):
    V = c.V("Lagrange", 1)
    u, v = TrialFunction(V), TestFunction(V)
    f = Coefficient(V)
    if which == "zero":
        return ufl.Form([])
    if which == "custom_integral":
        return f * v * ufl.Measure("custom", domain=c.mesh)
    if which == "cutcell_integral":
        return f * v * ufl.Measure("cutcell", domain=c.mesh)
    if which == "vertex_discontinuous":
        W = c.V("DG", 1)
        return Coefficient(W) * v * ufl.dP
    if which == "negative_id":
        return f * v * dx(-3)
    if which == "facet_normal_on_prism":
        return inner(c.n, grad(v)) * ds
    if which == "interior_facet_on_prism":
        return avg(f) * jump(v) * dS
    if which == "cell_volume_nonaffine":
        return CellVolume(c.mesh) * v * dx
    if which == "circumradius_nonaffine":
        return Circumradius(c.mesh) * v * dx
    if which == "bessel_I":
        return ufl.bessel_I(1, 1.5 + f) * v * dx
    if which == "bessel_K":
        return ufl.bessel_K(0, 1.5 + f) * v * dx
    if which == "bessel_J_real_order":
        return ufl.bessel_J(0.5, 1.5 + 0.3 * f) * v * dx
    if which == "bessel_Y_real_order":
        return ufl.bessel_Y(1.5, 1.5 + 0.3 * f) * v * dx
    if which == "three_arguments":
        w3 = ufl.Argument(V, 2)
        return u * v * w3 * dx
    if which == "nonlinear_in_argument":
        return u * u * v * dx
    if which == "expression_two_arguments":
        return (u * v, _ref_points(c.cell, "interior", 2))
    if which == "different_argument_spaces_diagonal":
        return inner(TrialFunction(c.V("Lagrange", 2)), v) * dx
    if which == "cell_avg":
        return ufl.cell_avg(f) * v * dx
    if which == "facet_avg":
        return ufl.facet_avg(f) * v * ds
    if which == "mixed_real":
        W = c.space(basix.ufl.mixed_element([c.el("Lagrange", 1), basix.ufl.real_element(c.cell, ())]))
        return inner(TrialFunction(W), TestFunction(W)) * dx
    raise ValueError(which)


@builder
def tp_two_variants(c, degree=3, arity=1):
    """Two tensor-product elements of one degree with different 1-D bases in one integral (GLL-warped arguments,
    equispaced coefficient, Legendre-based geometry is not available: geometry follows the mesh)."""
    ct = basix.CellType[c.cell]
    ea = basix.ufl.wrap_element(basix.create_tp_element(basix.ElementFamily.P, ct, degree, basix.LagrangeVariant.gll_warped))
    eb = basix.ufl.wrap_element(basix.create_tp_element(basix.ElementFamily.P, ct, degree, basix.LagrangeVariant.equispaced))
    Va, Vb = c.space(ea), c.space(eb)
    g = Coefficient(Vb)
    u, v = TrialFunction(Va), TestFunction(Va)
    if arity == 1:
        return inner(g, v) * dx + inner(grad(g), grad(v)) * dx
    return g * inner(u, v) * dx


@builder
def expr_two_meshes(c, which=0):
    """Expressions involving two distinct meshes (coefficients living on different meshes)."""
    ce2 = basix.ufl.element("Lagrange", c.cell, 1, shape=(c.gdim,))
    mesh2 = Mesh(ce2)
    f = Coefficient(c.V("Lagrange", 1))
    g = Coefficient(FunctionSpace(mesh2, basix.ufl.element("Lagrange", c.cell, 2)))
    e = [lambda: f * g, lambda: g * f + f, lambda: grad(f) * g][which]()
    return (e, _ref_points(c.cell, "interior", 3))


@builder
def facet_edge_lengths(c):
    """Min/MaxFacetEdgeLength lower to FacetEdgeVectors, which ffcx tabulates from an INTEGER table of facet edge vertices."""
    V = c.V("Lagrange", 1)
    v = TestFunction(V)
    return (ufl.MinFacetEdgeLength(c.mesh) + 2 * ufl.MaxFacetEdgeLength(c.mesh)) * v * ds


ZOO = [("triangle", "CR", 1, None, False), ("tetrahedron", "CR", 1, None, False), ("triangle", "iso", 1, None, False), ("triangle", "iso", 2, None, False),
       # (iso on interval/quadrilateral is left out: basix 0.10's derivative tabulation of those macro elements returns values of
       # order 1e20, which both ffcx and the oracle inherit; float32 kernels then overflow)
       ("tetrahedron", "iso", 1, None, False), ("quadrilateral", "DPC", 2, None, False),
       ("quadrilateral", "serendipity", 2, None, False), ("hexahedron", "serendipity", 1, None, False), ("quadrilateral", "RTCF", 1, None, False),
       ("quadrilateral", "RTCE", 1, None, False), ("hexahedron", "NCF", 1, None, False), ("hexahedron", "NCE", 1, None, False), ("triangle", "N2curl", 1, None, False),
       ("tetrahedron", "N2curl", 1, None, False), ("triangle", "HHJ", 1, None, False), ("triangle", "Regge", 1, None, False), ("tetrahedron", "Regge", 0, None, False),
       ("triangle", "BDM", 2, None, False), ("triangle", "bubble", 3, None, False), ("quadrilateral", "bubble", 2, None, False), ("interval", "bubble", 2, None, False),
       ("triangle", "Lagrange", 3, "legendre", True), ("triangle", "Lagrange", 2, "gl_centroid", True), ("triangle", "Lagrange", 2, None, True),
       ("quadrilateral", "Lagrange", 3, "equispaced", False), ("interval", "Lagrange", 4, "gll_isaac", False), ("hexahedron", "DPC", 1, None, False)]


@builder
def family_zoo(c, family="CR", degree=1, variant=None, discontinuous=False, itype="cell"):
    """Less common element families / variants: mass-like and (for scalar elements) stiffness-like forms with a coefficient of the
    same space; on facets the exterior mass and the interior jump."""
    kw = {}
    if variant:
        kw["lagrange_variant"] = getattr(basix.LagrangeVariant, variant)
    if discontinuous:
        kw["discontinuous"] = True
    el = basix.ufl.element(family, c.cell, degree, **kw)
    V = c.space(el)
    u, v = TrialFunction(V), TestFunction(V)
    f = Coefficient(V)
    if itype == "cell":
        a = (1.0 + inner(f, f)) * inner(u, v) * dx
        if el.reference_value_shape == ():
            a = a + inner(grad(u), grad(v)) * dx
        return a
    if itype == "exterior_facet":
        return (1.0 + inner(f, f)) * inner(u, v) * ds
    return inner(jump(u), jump(v)) * dS + inner(f("+"), f("-")) * inner(u("+"), v("-")) * dS


ARG_PAIRS = [(("iso", 1), ("Lagrange", 2)), (("Lagrange", 2), ("iso", 1)), (("iso", 2), ("DG", 1)), (("DG", 0), ("iso", 1)), (("CR", 1), ("Lagrange", 1)),
             (("Lagrange", 1), ("bubble", 3)), (("DG", 2), ("Lagrange", 1))]


@builder
def arg_pair(c, test=("iso", 1), trial=("Lagrange", 2), itype="cell"):
    """Bilinear forms whose test and trial spaces are DIFFERENT elements (different polyset types, degrees, continuity): anything
    derived from 'the' argument elements (quadrature polyset, table sizes, block shapes) must take both into account."""
    Vt, Vu = c.V(test[0], test[1]), c.V(trial[0], trial[1])
    u, v = TrialFunction(Vu), TestFunction(Vt)
    f = Coefficient(Vu)
    if itype == "cell":
        return (1.0 + f * f) * u * v * dx + inner(grad(u), grad(v)) * dx
    if itype == "exterior_facet":
        return (1.0 + f * f) * u * v * ds
    return (1.0 + f("+") * f("-")) * u("+") * v("-") * dS + avg(u) * avg(v) * dS


@builder
def same_integrand_twice(c, how="explicit_equals_estimated", itype="cell", sid=None):
    """The SAME integrand declared twice under one (type, id) with metadata that differ as dictionaries but resolve to the same
    quadrature rule: the user declared it twice, so it counts twice."""
    V = c.V("Lagrange", 1)
    u, v = TrialFunction(V), TestFunction(V)
    R = (lambda e: e("+")) if itype == "interior_facet" else (lambda e: e)
    g = R(u) * R(v)
    kw = {} if sid is None else {"subdomain_id": sid}
    if how == "explicit_equals_estimated":
        mds = [None, {"quadrature_degree": 2}]
    elif how == "scheme_default":
        mds = [None, {"quadrature_rule": "default"}]
    elif how == "degree0_1":
        mds = [{"quadrature_degree": 0}, {"quadrature_degree": 1}]
    else:  # three times
        mds = [None, {"quadrature_degree": 2}, {"quadrature_rule": "default", "quadrature_degree": 2}]
    form = None
    for md in mds:
        t = g * (measure(itype, **kw) if md is None else measure(itype, metadata=md, **kw))
        form = t if form is None else form + t
    return form


@builder
def tensor3(c, shape=(2, 3, 2), itype="cell", arity=1):
    """Rank-3 tensor-valued constant, coefficient and arguments (blocked element) with unequal extents, fully contracted and with
    single entries: the flat index of every component is used for c, w and A."""
    sh = tuple(shape)
    K = Constant(c.mesh, shape=sh)
    el = basix.ufl.blocked_element(c.el("Lagrange", 1), shape=sh)
    V = c.space(el)
    f = Coefficient(V)
    v = TestFunction(V)
    u = TrialFunction(V)
    last = tuple(n - 1 for n in sh)
    mid = (0, sh[1] - 1, 0)
    m = measure(itype)
    if itype == "interior_facet":
        return inner(K, v("+")) * m + inner(f("-"), v("-")) * m + K[last] * f("+")[mid] * v("-")[last] * m
    if arity == 2:
        return (1.0 + K[mid] * f[last]) * inner(u, v) * m + K[last] * u[mid] * v[last] * m
    return inner(K, v) * m + inner(f, v) * m + K[last] * f[mid] * v[last] * m


@builder
def geom_all(c, itype="interior_facet", side="-", which=None):
    """Every geometric quantity ffcx tabulates, under the given restriction (interior facets) or unrestricted: cell/facet edge
    vectors and vertices (via edge lengths, diameter), volumes, areas, radii, normals, Jacobians, coordinates."""
    V = c.V("Lagrange", 1)
    v = TestFunction(V)
    m = c.mesh
    simplex_affine = c.cell in SIMPLICES and c.cdeg == 1
    Q = {"x": c.x[c.gdim - 1], "n": c.n[0], "diam": CellDiameter(m), "J": ufl.Jacobian(m)[c.gdim - 1, c.tdim - 1],
         "detJ": ufl.JacobianDeterminant(m), "K": ufl.JacobianInverse(m)[c.tdim - 1, 0]}
    if c.cdeg == 1:
        # (single components of CellEdgeVectors / FacetEdgeVectors are not used: UFL leaves the orientation of an edge vector
        # open, only the lengths built from them are defined)
        Q.update({"minedge": ufl.MinCellEdgeLength(m), "maxedge": ufl.MaxCellEdgeLength(m), "verts": ufl.classes.CellVertices(m)[c.tdim, 0]})
        if c.tdim == 3:
            Q.update({"minfacetedge": ufl.MinFacetEdgeLength(m), "maxfacetedge": ufl.MaxFacetEdgeLength(m)})
    if simplex_affine:
        Q.update({"vol": CellVolume(m), "circ": Circumradius(m), "farea": FacetArea(m)})
    if c.tdim >= 2:
        Q["FJ"] = ufl.classes.FacetJacobian(m)[c.gdim - 1, 0]
    if itype == "cell":  # facet quantities do not exist in cell integrals
        for nm in ("n", "FJ", "farea", "minfacetedge", "maxfacetedge"):
            Q.pop(nm, None)
    names = sorted(Q) if which is None else list(which)
    e = 0
    for k, nm in enumerate(names):
        q = Q[nm]
        if itype == "interior_facet":
            sd = side if side in ("+", "-") else ("+", "-")[k % 2]
            q = q(sd)
        e = e + (1.0 + 0.37 * k) * q
    if itype == "interior_facet":
        return e * v("+") * dS + e * v("-") * dS
    return e * v * measure(itype)


# ============================================================================ mixed-dimensional / several meshes
@builder
def submesh_codim0(c, which=0):
    """Arguments/coefficients on a second mesh of the same cell type (sub-mesh of codimension 0)."""
    mesh2 = Mesh(basix.ufl.element("Lagrange", c.cell, c.cdeg, shape=(c.gdim,)))
    V = c.V("Lagrange", 2)
    W = FunctionSpace(mesh2, basix.ufl.element("Lagrange", c.cell, 1))
    u = TrialFunction(V)
    v = TestFunction(W)
    f = Coefficient(W)
    if which == 0:
        return inner(grad(u), grad(v)) * dx(domain=c.mesh) + f * inner(u, v) * dx(domain=c.mesh)
    return exp(0.3 * f) * inner(u, v) * ds(domain=c.mesh)


@builder
def mixed_dim_codim1(c, which=0):
    """Exterior-facet integral of the cell mesh with test function / coefficient living on the facet mesh."""
    fcell = {"triangle": "interval", "quadrilateral": "interval", "tetrahedron": "triangle", "hexahedron": "quadrilateral"}[c.cell]
    fmesh = Mesh(basix.ufl.element("Lagrange", fcell, 1, shape=(c.gdim,)))
    V = c.V("Lagrange", 2)
    W = FunctionSpace(fmesh, basix.ufl.element("Lagrange", fcell, 1))
    u = TrialFunction(V)
    q = TestFunction(W)
    f = Coefficient(V)
    g = Coefficient(W)
    dsm = ufl.Measure("ds", domain=c.mesh)
    n = FacetNormal(c.mesh)
    if which == 0:
        return inner(f * g * grad(u), n * q) * dsm
    return (1 + g * g) * inner(u, q) * dsm


@builder
def ridge_form(c, which=0):
    """Integral over the ridges (codimension 2) of the cell."""
    V = c.V("Lagrange", 2)
    u, v = TrialFunction(V), TestFunction(V)
    f = Coefficient(V)
    dr = ufl.Measure("dr", domain=c.mesh)
    return (1 + f * f) * inner(u, v) * dr if which == 0 else u.dx(0) * f * v * dr
