"""Capture the LNodes AST of real kernels (IntegralGenerator.generate / ExpressionGenerator.generate) while ffcx
generates code, and execute it in the bounds-checked interpreter with buffers of exactly the contract extents."""

from __future__ import annotations

import functools
import re

import numpy as np

import vf.repoenv  # noqa: F401
from vf.astinterp import Array, AstError, Interp, Unsupported
from vf.monitors import Patch


class Capture:
    def __init__(self):
        self.kernels = []  # dicts: kind, name, domain, ast
        self._p = Patch()

    def __enter__(self):
        import ffcx.codegeneration.expression_generator as eg
        import ffcx.codegeneration.integral_generator as ig

        cap = self
        o1 = ig.IntegralGenerator.generate

        @functools.wraps(o1)
        def gen_i(self_, domain):
            out = o1(self_, domain)
            cap.kernels.append({"kind": "integral", "name": f"{self_.ir.expression.name}_{domain.name}", "ast": out,
                                "integral_type": self_.ir.expression.integral_type})
            return out

        self._p.set(ig.IntegralGenerator, "generate", gen_i)
        o2 = eg.ExpressionGenerator.generate

        @functools.wraps(o2)
        def gen_e(self_, *a, **k):
            out = o2(self_, *a, **k)
            cap.kernels.append({"kind": "expression", "name": self_.ir.expression.name, "ast": out, "integral_type": "expression"})
            return out

        self._p.set(eg.ExpressionGenerator, "generate", gen_e)
        return self

    def __exit__(self, *a):
        self._p.restore()


def form_integral_names(source):
    """{form symbol: [integral factory names in descriptor order]} parsed from the generated C."""
    out = {}
    for m in re.finditer(r"static ufcx_integral\* form_integrals_(\w+)\[\d+\] = \{([^}]*)\};", source):
        out[m.group(1)] = [t.strip().lstrip("&") for t in m.group(2).split(",") if t.strip()]
    return out


def run_kernel_ast(ast, A0, w, c, x, ent, perm, complex_mode=False, max_steps=600000):
    """Interpret one kernel body.  Buffers are 1-d arrays of exactly the contract extents; ent/perm None => NULL pointer
    (any dereference is an error).  Returns (A, stats)."""
    cplx = complex if complex_mode else float
    arrays = {
        "A": Array("A", (len(A0),), A0, dtype=cplx),
        "w": Array("w", (len(w),), w, dtype=cplx) if len(w) else Array("w", (0,), None, dtype=cplx),
        "c": Array("c", (len(c),), c, dtype=cplx) if len(c) else Array("c", (0,), None, dtype=cplx),
        "coordinate_dofs": Array("coordinate_dofs", (len(x),), x),
        "entity_local_index": Array("entity_local_index", (0 if ent is None else len(ent),), ent if ent is not None and len(ent) else None, dtype=np.int64),
        "quadrature_permutation": Array("quadrature_permutation", (0 if perm is None else len(perm),), perm if perm is not None and len(perm) else None, dtype=np.int64),
    }
    it = Interp(env={}, arrays=arrays)
    it.scalar_complex = complex_mode
    it.max_steps = max_steps
    it.run(ast)
    nacc = it.n_access
    return arrays["A"].data.copy(), {"accesses": nacc, "statements": it.n_stmts, "reads_w": arrays["w"].reads, "reads_x": arrays["coordinate_dofs"].reads}


__all__ = ["Capture", "run_kernel_ast", "form_integral_names", "AstError", "Unsupported"]
_ = np
