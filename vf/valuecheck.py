"""Kernel-vs-oracle comparison of every kernel listed by a compiled form (shared by C01, C02,
C05, C06, C09, C10, C11, C17...).  The kernel is reached only through the form descriptor
(form_integral_offsets / ids / integrals) and data are packed only from descriptor fields.
"""

from __future__ import annotations

import itertools

import numpy as np

from vf import harness as H
from vf import monitors as M
from vf import oracle as O
from vf.common import case_hash


class KernelObs:
    """One kernel call compared with the oracle."""

    __slots__ = ("itype", "sid", "k", "entities", "perms", "err", "bound", "status", "maxR", "maxS", "info", "geom", "sensitivity", "conditioning_adjusted")

    def __init__(self):
        self.sensitivity = None
        self.conditioning_adjusted = False

    def as_dict(self):
        return {s: getattr(self, s) for s in self.__slots__}


def domain_tag_cell(itype, cellname, k_in_group_for_id):
    return None


def choose_entities(orc, itype, rng, mode="all", limit=None):
    edim, n = orc.entity_info(itype)
    if itype == "cell":
        return [(0, 0)]
    if itype == "interior_facet":
        pairs = list(itertools.product(range(n), range(n)))
        if mode != "all" and limit and len(pairs) > limit:
            idx = rng.permutation(len(pairs))[:limit]
            pairs = [pairs[i] for i in sorted(idx)]
        return pairs
    return [(e, 0) for e in range(n)]


def choose_perms(cellname, itype, ents, needs_perm, rng, mode="some"):
    if itype in ("exterior_facet", "ridge") and needs_perm:
        # mixed-dimensional kernels: tables of the codimension-0 functions are permuted with quadrature_permutation[0]
        import basix

        td = O.tdim_of(cellname)
        if itype == "exterior_facet":
            n0 = H.facet_perm_count(cellname, ents[0])
        else:
            n0 = 2 if td == 3 else 1
        return [(p, 0) for p in range(n0)]
    if itype != "interior_facet":
        return [(0, 0)]
    n0 = H.facet_perm_count(cellname, ents[0])
    n1 = H.facet_perm_count(cellname, ents[1])
    allp = list(itertools.product(range(n0), range(n1)))
    if mode == "all":
        return allp
    if mode == "zero":
        return [(0, 0)]
    k = min(len(allp), 3)
    idx = rng.permutation(len(allp))[:k]
    return [allp[i] for i in sorted(idx)]


def facet_kernel_matches_entity(cellname, itype, domain_tag, ent):
    """For cells with mixed facet types (prism, pyramid) each facet kernel carries a `domain`
    cell-type tag; the kernel must only be called for facets of that type."""
    import basix

    if itype not in ("exterior_facet", "interior_facet"):
        return True
    ft = O.facet_celltype(cellname, ent)
    return int(ft) == int(domain_tag)


def run_form(
    uform,
    comp: H.Compiled,
    cform,
    rng,
    *,
    scalar=None,
    complex_data=None,
    geom_kinds=("affine",),
    n_data=1,
    entity_mode="all",
    entity_limit=12,
    perm_mode="some",
    prefill=True,
    sum_factorization=False,
    diagonal=False,
    only=None,
    delta=None,
    orc=None,
    poison=None,
    wscale=1.0,
    data_fixed=None,
):
    """Call every kernel of `cform` and compare with the oracle.  Returns (observations,
    descriptor, oracle)."""
    ffi = comp.ffi
    if delta is None:
        delta = getattr(comp, "table_delta", 0.0)
    scalar = scalar or comp.scalar
    dt, rdt, _, _ = H.SCALARS[scalar]
    cmode = "complex" in scalar
    if complex_data is None:
        complex_data = cmode
    orc = orc or O.FormOracle(uform, complex_mode=cmode, sum_factorization=sum_factorization, diagonal=diagonal)
    desc = H.read_form(ffi, cform)
    entries = H.integral_entries(ffi, cform, desc)
    obs = []
    cellname = orc.cellname
    ce = orc.coord_element
    cdeg = ce.embedded_superdegree
    for itype, sid, k, itg in entries:
        if only and not only(itype, sid):
            continue
        interior = itype == "interior_facet"
        idesc = H.read_integral(ffi, itg, desc["num_coefficients"])
        shape = orc.tensor_shape(itype)
        for gk in geom_kinds:
            for _ in range(n_data):
                data = H.make_data(
                    rng, ce, orc.original_coefficients, orc.constants, interior, complex_data and cmode, gk
                )
                if data_fixed:  # special-value data class, e.g. {"w": 0.0, "c": 2.0}: exact on both sides
                    if data_fixed.get("w") is not None:
                        for cf in data["w"]:
                            data["w"][cf] = {s_: np.full_like(v_, data_fixed["w"]) for s_, v_ in data["w"][cf].items()}
                    if data_fixed.get("c") is not None:
                        for cc in data["c"]:
                            data["c"][cc] = np.full_like(data["c"][cc], data_fixed["c"])
                if wscale != 1.0:
                    for cf in data["w"]:
                        data["w"][cf] = {s_: v_ * wscale for s_, v_ in data["w"][cf].items()}
                w, _slots = H.pack_w(
                    orc.original_coefficients, desc["original_coefficient_positions"], data, interior, dt,
                    fill=poison, enabled=idesc["enabled_coefficients"] if poison is not None else None,
                )
                c = H.pack_c(orc.constants, data, dt)
                x = H.pack_x(data, interior, rdt)
                ents_all = choose_entities(orc, itype, rng, entity_mode, entity_limit)
                for ents in ents_all:
                    if itype in ("exterior_facet", "interior_facet"):
                        if not facet_kernel_matches_entity(cellname, itype, idesc["domain"], ents[0]):
                            continue
                        if interior and not facet_kernel_matches_entity(cellname, itype, idesc["domain"], ents[1]):
                            continue
                    for perms in choose_perms(cellname, itype, ents, idesc["needs_facet_permutations"], rng, perm_mode):
                        A0 = (
                            (rng.uniform(-1, 1, shape or (1,)) + (1j * rng.uniform(-1, 1, shape or (1,)) if cmode else 0)).astype(dt)
                            if prefill
                            else np.zeros(shape or (1,), dtype=dt)
                        )
                        A = A0.copy()
                        if itype == "cell":
                            ent = perm = None
                        else:
                            ent = np.array(ents if interior else ents[:1], dtype=np.intc)
                            perm = np.array(perms if interior else perms[:1], dtype=np.uint8)
                            count_perm_used = perms[0] != 0
                        H.call_kernel(ffi, itg, scalar, A, w, c, x, ent, perm)
                        T = (A.astype(np.complex128 if cmode else np.float64) - A0.astype(np.complex128 if cmode else np.float64))
                        o = KernelObs()
                        o.itype, o.sid, o.k, o.entities, o.perms, o.geom = itype, sid, k, list(ents), list(perms), gk
                        try:
                            # oracle sees the data as the kernel saw them (after cast to the scalar type)
                            R, S, info = orc.tensor(itype, sid, _cast_data(data, dt, rdt), ents, perms)
                        except O.Unsupported as e:
                            o.err, o.bound, o.status, o.maxR, o.maxS, o.info = None, None, "unsupported", None, None, str(e)
                            obs.append(o)
                            continue
                        # prefilled A: rounding of A0+T limits accuracy to eps*|A0|
                        Seff = S + (np.abs(A0).reshape(S.shape) * 1.0 if prefill else 0.0)
                        o.err, o.bound, o.status = H.compare(T, R, Seff, scalar, delta, ops=max(1, info["npts"]))
                        if o.status == "bad" and o.err < 1e5 * H.EPS[scalar]:
                            # near miss: measure the conditioning of this evaluation (how much the REFERENCE moves when the
                            # inputs move by a few ulp: ill-shaped random cells amplify rounding through the inverse Jacobian);
                            # a backward-stable kernel may legitimately differ by that much.  Errors >= 1e5 eps are never excused.
                            sens = _sensitivity(orc, itype, sid, data, dt, rdt, ents, perms, R, Seff, scalar, rng)
                            o.sensitivity = sens
                            if sens is not None and o.err <= o.bound + 64 * sens:
                                o.status = "ok"
                                o.bound = o.bound + 64 * sens
                                o.conditioning_adjusted = True
                        o.maxR = float(np.max(np.abs(R))) if R.size else 0.0
                        o.maxS = float(np.max(S)) if S.size else 0.0
                        o.info = info["rules"]
                        if o.status != "ok":
                            o.info = {"rules": info["rules"], "K": T.tolist() if T.size <= 64 else "large", "R": R.tolist() if R.size <= 64 else "large"}
                        obs.append(o)
    return obs, desc, orc


def _sensitivity(orc, itype, sid, data, dt, rdt, ents, perms, R, Seff, scalar, rng, trials=2):
    """max |R(inputs (1 + 4 eps u)) - R(inputs)| / max(S) over a few random sign patterns u (eps of the scalar type)."""
    eps = H.EPS[scalar]
    scale = float(np.max(Seff)) if Seff.size else 0.0
    if scale <= 0:
        return None
    worst = 0.0
    base = _cast_data(data, dt, rdt)
    for _ in range(trials):
        d2 = {"x": {}, "w": {}, "c": {}}
        for s_, v in base["x"].items():
            d2["x"][s_] = v * (1 + 4 * eps * rng.choice([-1.0, 1.0], size=np.shape(v)))
        for cf, sv in base["w"].items():
            d2["w"][cf] = {s_: v * (1 + 4 * eps * rng.choice([-1.0, 1.0], size=np.shape(v))) for s_, v in sv.items()}
        for cc, v in base["c"].items():
            d2["c"][cc] = v * (1 + 4 * eps * rng.choice([-1.0, 1.0], size=np.shape(v)))
        try:
            R2, _, _ = orc.tensor(itype, sid, d2, ents, perms)
        except Exception:
            return None
        if not np.all(np.isfinite(R2)):
            return None
        worst = max(worst, float(np.max(np.abs(np.asarray(R2) - np.asarray(R)))) / scale)
    return worst


def _cast_data(data, dt, rdt):
    out = {"x": {s: np.asarray(v).astype(rdt).astype(float) for s, v in data["x"].items()}, "w": {}, "c": {}}
    wide = np.complex128 if np.issubdtype(dt, np.complexfloating) else np.float64
    for c, d in data["w"].items():
        out["w"][c] = {s: np.asarray(v).astype(dt).astype(wide) for s, v in d.items()}
    for c, v in data["c"].items():
        out["c"][c] = np.asarray(v).astype(dt).astype(wide)
    return out


def summarize(obs):
    bad = [o for o in obs if o.status == "bad"]
    grey = [o for o in obs if o.status == "grey"]
    unsup = [o for o in obs if o.status == "unsupported"]
    ok = [o for o in obs if o.status == "ok"]
    nontrivial = [o for o in ok if o.maxS and o.maxS > 1e-6]
    return {"bad": bad, "grey": grey, "unsupported": unsup, "ok": ok, "nontrivial": nontrivial}


def obs_hash(recipe, o):
    return case_hash([recipe, o.itype, o.sid, o.entities, o.perms, o.geom])


__all__ = ["run_form", "summarize", "KernelObs", "M"]
