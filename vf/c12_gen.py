"""Generate code for one recipe under a given process history; print JSON {files: [text...]}.

Run as a fresh process:  python -m vf.c12_gen '<json case>'
The hash seed is the caller's PYTHONHASHSEED.
"""

import hashlib
import json
import sys


def unrelated_objects(k):
    import basix.ufl
    import ufl

    out = []
    for i in range(k):
        cell = ["triangle", "tetrahedron", "interval", "quadrilateral"][i % 4]
        gd = {"triangle": 2, "tetrahedron": 3, "interval": 1, "quadrilateral": 2}[cell]
        mesh = ufl.Mesh(basix.ufl.element("Lagrange", cell, 1, shape=(gd,)))
        V = ufl.FunctionSpace(mesh, basix.ufl.element("Lagrange", cell, 1 + i % 2))
        f = ufl.Coefficient(V)
        c = ufl.Constant(mesh)
        u, v = ufl.TrialFunction(V), ufl.TestFunction(V)
        out.append(c * f * ufl.inner(u, v) * ufl.dx)
    return out


def main():
    case = json.loads(sys.argv[1])
    import vf.repoenv  # noqa: F401
    import ffcx.compiler
    import ffcx.options

    from vf import corpus

    history = case["history"]
    options = dict(case.get("options") or {})
    opts = ffcx.options.get_options(options)

    def compile_(objs):
        code, _ = ffcx.compiler.compile_ufl_objects(list(objs), options=opts, namespace="ns")
        return code

    def objects_of(b):
        return (b.forms or []) + (b.expressions or [])

    keep = []
    if history in ("objs", "objs_compiled"):
        keep += unrelated_objects(case.get("k", 5))
    if history in ("compiled_before", "objs_compiled"):
        for r in case.get("other_recipes", []):
            compile_(objects_of(corpus.build(r)))
        for f in unrelated_objects(2):
            compile_([f])
    if history == "built_early":
        b = corpus.build(case["recipe"])
        keep += unrelated_objects(4)
        for r in case.get("other_recipes", []):
            compile_(objects_of(corpus.build(r)))
    else:
        b = corpus.build(case["recipe"])
    objs = objects_of(b)
    code = compile_(objs)
    second_differs = False
    if history == "twice":
        code2 = compile_(objs)
        second_differs = list(code2) != list(code)
        code = code2
    print("C12GEN" + json.dumps({"files": list(code), "sha": [hashlib.sha256(c.encode()).hexdigest() for c in code], "second_differs": second_differs}))


if __name__ == "__main__":
    main()
