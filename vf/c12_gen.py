"""Generate code for one recipe under a given process history; print JSON {files: [text...]}.

Run as a fresh process:  python -m vf.c12_gen '<json case>'
The hash seed is the caller's PYTHONHASHSEED.
"""

import hashlib
import json
import sys


def unrelated_objects(k):
    import basix.ufl
    import ufl

    out = []
    for i in range(k):
        cell = ["triangle", "tetrahedron", "interval", "quadrilateral"][i % 4]
        gd = {"triangle": 2, "tetrahedron": 3, "interval": 1, "quadrilateral": 2}[cell]
        mesh = ufl.Mesh(basix.ufl.element("Lagrange", cell, 1, shape=(gd,)))
        V = ufl.FunctionSpace(mesh, basix.ufl.element("Lagrange", cell, 1 + i % 2))
        f = ufl.Coefficient(V)
        c = ufl.Constant(mesh)
        u, v = ufl.TrialFunction(V), ufl.TestFunction(V)
        out.append(c * f * ufl.inner(u, v) * ufl.dx)
    return out


def main():
    case = json.loads(sys.argv[1])
    import vf.repoenv  # noqa: F401
    import ffcx.compiler
    import ffcx.options

    from vf import corpus

    history = case["history"]
    options = dict(case.get("options") or {})
    opts = ffcx.options.get_options(options)

    def compile_(objs):
        code, _ = ffcx.compiler.compile_ufl_objects(list(objs), options=opts, namespace="ns")
        return code

    def objects_of(b):
        return (b.forms or []) + (b.expressions or [])

    keep = []
    if history in ("objs", "objs_compiled"):
        keep += unrelated_objects(case.get("k", 5))
    if history in ("compiled_before", "objs_compiled"):
        for r in case.get("other_recipes", []):
            compile_(objects_of(corpus.build(r)))
        for f in unrelated_objects(2):
            compile_([f])
    if history == "hostile":
        # compilations that share as much as possible with the target, but differ in what must NOT leak into it: the same recipe
        # with very loose table tolerances and with another scalar type, macro ("iso") and GLL-variant elements on the same cell with
        # the same quadrature degrees, explicit schemes (the related elements first: whatever is memoised per (cell, degree, scheme)
        # is then filled by THEM, not by the target's own recipe)
        import basix.ufl
        import ufl

        cellname = case["recipe"].get("cell", "triangle")
        gd = {"interval": 1, "triangle": 2, "quadrilateral": 2}.get(cellname, 3)
        try:
            mesh = ufl.Mesh(basix.ufl.element("Lagrange", cellname, 1, shape=(gd,)))
            for fam, deg in (("iso", 1), ("iso", 2), ("Lagrange", 3)):
                try:
                    kw = {"lagrange_variant": basix.LagrangeVariant.gll_warped} if fam == "Lagrange" else {}
                    V = ufl.FunctionSpace(mesh, basix.ufl.element(fam, cellname, deg, **kw))
                    u, v = ufl.TrialFunction(V), ufl.TestFunction(V)
                    f = ufl.Coefficient(V)
                    forms = [f * u * v * ufl.dx(metadata={"quadrature_degree": q}) + u * v * ufl.ds(metadata={"quadrature_degree": q}) for q in (1, 2, 3, 4)]
                    forms.append(u * v * ufl.dx + ufl.inner(ufl.grad(u), ufl.grad(v)) * ufl.dx)
                    ffcx.compiler.compile_ufl_objects(forms, options=ffcx.options.get_options({"table_atol": 1e-3}), namespace="ns")
                except Exception:
                    pass
        except Exception:
            pass
        for o in ({"table_atol": 0.05, "table_rtol": 0.05}, {"scalar_type": "float32"}):
            try:
                bb = corpus.build(case["recipe"])
                ffcx.compiler.compile_ufl_objects(objects_of(bb), options=ffcx.options.get_options(dict(options, **o)), namespace="ns")
            except Exception:
                pass
    if history == "built_early":
        b = corpus.build(case["recipe"])
        keep += unrelated_objects(4)
        for r in case.get("other_recipes", []):
            compile_(objects_of(corpus.build(r)))
    else:
        b = corpus.build(case["recipe"])
    objs = objects_of(b)
    code = compile_(objs)
    second_differs = False
    if history == "twice":
        code2 = compile_(objs)
        second_differs = list(code2) != list(code)
        code = code2
    print("C12GEN" + json.dumps({"files": list(code), "sha": [hashlib.sha256(c.encode()).hexdigest() for c in code], "second_differs": second_differs}))


if __name__ == "__main__":
    main()
