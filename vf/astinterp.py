"""E-ast: a bounds-checked interpreter of ffcx's code-generation AST (LNodes).  DESIGN 2.4.

Executes declarations, sections (with the scoping the C formatter gives them), loops, Assign/AssignAdd and all
expression nodes on Python numbers; every ArrayAccess index is checked per dimension against the declared size
(tables, temporaries) or the contract extent (arguments); reads of never-written locals are flagged.
Independent of both formatters.
"""

from __future__ import annotations

import cmath
import math

import numpy as np

import vf.repoenv  # noqa: F401


class AstError(Exception):
    """A violation observed while interpreting (out-of-bounds, uninitialised read, unknown symbol)."""


class Unsupported(Exception):
    pass


class Array:
    """N-d array with per-dimension bounds checks and definedness tracking."""

    def __init__(self, name, shape, values=None, dtype=float, external=False):
        self.name = name
        self.shape = tuple(int(s) for s in shape)
        n = int(np.prod(self.shape)) if self.shape else 1
        self.data = np.zeros(n, dtype=dtype)
        self.defined = np.zeros(n, dtype=bool)
        self.external = external
        self.reads = 0
        self.writes = 0
        if values is not None:
            v = np.asarray(values, dtype=dtype).ravel()
            if v.size == 1 and n > 1:
                # C semantics of `= {0}` style initialisers: remaining elements are zero
                self.data[:] = 0
                self.data[0] = v[0]
            else:
                self.data[: v.size] = v
            self.defined[:] = True

    def flat(self, idx, what):
        if len(idx) != len(self.shape):
            if len(self.shape) == 1 and len(idx) == 1:
                pass
            else:
                raise AstError(f"{what} {self.name}: {len(idx)} indices for {len(self.shape)}-d array")
        f = 0
        for d, (i, n) in enumerate(zip(idx, self.shape)):
            if isinstance(i, (float, complex)) or i != int(i):
                raise AstError(f"{what} {self.name}: non-integer index {i}")
            i = int(i)
            if i < 0 or i >= n:
                raise AstError(f"{what} {self.name}{list(idx)}: index {i} out of range [0,{n}) in dimension {d} (shape {self.shape})")
            f = f * n + i
        return f

    def get(self, idx):
        f = self.flat(idx, "read of")
        if not self.defined[f]:
            raise AstError(f"read of {self.name}{list(idx)} before it was written")
        self.reads += 1
        return self.data[f].item()

    def set(self, idx, v, add=False):
        f = self.flat(idx, "write to")
        if add:
            if not self.defined[f]:
                raise AstError(f"'+=' on {self.name}{list(idx)} before it was initialised")
            self.data[f] += v
        else:
            self.data[f] = v
        self.defined[f] = True
        self.writes += 1


def _cfun(name, args, any_complex):
    """C semantics: domain errors give NaN, overflow gives inf (Python's math raises instead)."""
    try:
        return _cfun0(name, args, any_complex)
    except ValueError:
        return float("nan")
    except OverflowError:
        return float("inf")


def _cfun0(name, args, any_complex):
    a = args
    m = cmath if any_complex else math
    if name == "sqrt":
        return m.sqrt(a[0])
    if name == "abs":
        return abs(a[0])
    if name in ("cos", "sin", "tan", "acos", "asin", "atan", "cosh", "sinh", "tanh", "acosh", "asinh", "atanh", "exp"):
        return getattr(m, name)(a[0])
    if name == "ln":
        return m.log(a[0])
    if name == "power":
        if any_complex:
            return complex(a[0]) ** complex(a[1]) if a[0] != 0 else (0j if a[1] != 0 else 1 + 0j)
        if a[0] == 0 and a[1] < 0:
            return float("inf")
        return math.pow(a[0], a[1])
    if name == "erf":
        return math.erf(a[0])
    if name == "atan_2":
        return math.atan2(a[0], a[1])
    if name in ("min_value", "max_value"):
        # C fmin/fmax: a NaN operand is ignored
        x, y = a[0], a[1]
        if isinstance(x, float) and math.isnan(x):
            return y
        if isinstance(y, float) and math.isnan(y):
            return x
        return min(x, y) if name == "min_value" else max(x, y)
    if name == "real":
        return complex(a[0]).real
    if name == "imag":
        return complex(a[0]).imag
    if name == "conj":
        return complex(a[0]).conjugate() if any_complex else a[0]
    raise Unsupported(f"math function {name}")


def _hval(*key):
    """Deterministic pseudo-random value in [0.5, 1.5) from a key."""
    import hashlib

    h = hashlib.sha1(repr(key).encode()).digest()
    return 0.5 + int.from_bytes(h[:6], "little") / 2**48


class LazyArray:
    """An array nobody declared in the fragment being interpreted (kernel argument, table defined elsewhere):
    reads give deterministic pseudo-random values, writes are recorded."""

    def __init__(self, name):
        self.name = name
        self.written = {}
        self.reads = 0
        self.writes = 0

    def get(self, idx):
        k = tuple(int(i) for i in idx)
        self.reads += 1
        if k in self.written:
            return self.written[k]
        return _hval(self.name, k)

    def set(self, idx, v, add=False):
        k = tuple(int(i) for i in idx)
        self.writes += 1
        if add:
            v = self.get(idx) + v
        self.written[k] = v


class Interp:
    def __init__(self, env=None, arrays=None, strict=True, lazy=False):
        self.lazy = lazy
        self.lazy_arrays = {}
        self._init(env, arrays, strict)

    def _init(self, env=None, arrays=None, strict=True):
        self.decl_types = {}
        self.scopes = [dict(env or {})]
        self.arrays = dict(arrays or {})
        self.strict = strict
        self.n_access = 0
        self.n_stmts = 0
        self.saw_nan = False
        self.ambiguous = None
        self.int_typed_math = False
        self.branch_cut_function = False
        self.max_steps = 5_000_000

    # ---- scopes
    def lookup(self, name):
        for s in reversed(self.scopes):
            if name in s:
                return s[name]
        if name in self.arrays:
            return self.arrays[name]
        if name in self.lazy_arrays:
            return self.lazy_arrays[name]
        raise AstError(f"use of undeclared symbol {name}")

    def _convert(self, dtype, v):
        """C conversion on initialisation / assignment to a scalar of the declared type."""
        import ffcx.codegeneration.lnodes as L

        if v is None or isinstance(v, (Array, LazyArray)):
            return v
        try:
            if dtype == L.DataType.REAL:
                return float(v.real) if isinstance(v, complex) else float(v)
            if dtype == L.DataType.SCALAR:
                return complex(v) if (self.scalar_complex or isinstance(v, complex)) else float(v)
            if dtype == L.DataType.INT and not isinstance(v, bool):
                return int(v) if not isinstance(v, complex) else int(v.real)
        except (TypeError, ValueError, OverflowError):
            return v
        return v

    def assign_scalar(self, name, v):
        for s in reversed(self.scopes):
            if name in s:
                s[name] = self._convert(self.decl_types.get(name), v)
                return
        raise AstError(f"assignment to undeclared symbol {name}")

    def _array(self, name):
        try:
            arr = self.lookup(name)
        except AstError:
            if not self.lazy:
                raise
            arr = self.lazy_arrays[name] = LazyArray(name)
        if not isinstance(arr, (Array, LazyArray)):
            raise AstError(f"subscript of non-array {name}")
        return arr

    def snapshot(self):
        """Observable state after running a fragment: top-level scalars, declared arrays and writes to outside arrays."""
        out = {}
        for k, v in self.scopes[0].items():
            if isinstance(v, Array):
                out["array:" + k] = [complex(x) for x in v.data.tolist()]
            elif v is not None:
                out["scalar:" + k] = complex(v)
        for k, v in self.lazy_arrays.items():
            if v.written:
                out["written:" + k] = {str(i): complex(x) for i, x in sorted(v.written.items())}
        return out

    # ---- expressions
    def ev(self, e):
        import ffcx.codegeneration.lnodes as L

        if isinstance(e, L.LiteralFloat):
            return e.value
        if isinstance(e, L.LiteralInt):
            return int(e.value)
        if isinstance(e, L.Symbol):
            try:
                v = self.lookup(e.name)
            except AstError:
                if not self.lazy:
                    raise
                v = 1 if e.dtype == L.DataType.INT else _hval("scalar", e.name)
                self.scopes[0][e.name] = v
            if isinstance(v, (Array, LazyArray)):
                raise AstError(f"array {e.name} used as a scalar")
            if v is None:
                raise AstError(f"read of {e.name} before it was written")
            return v
        if isinstance(e, L.MultiIndex):
            return self.ev(e.global_index)
        if isinstance(e, L.Neg):
            return -self.ev(e.arg)
        if isinstance(e, L.Not):
            return not bool(self.ev(e.arg))
        if isinstance(e, L.ArrayAccess):
            arr = self._array(e.array.name)
            idx = [self.ev(i) for i in e.indices]
            self.n_access += 1
            return arr.get(idx)
        if isinstance(e, L.Conditional):
            return self.ev(e.true) if self.ev(e.condition) else self.ev(e.false)
        if isinstance(e, L.MathFunction):
            args = [self.ev(a) for a in e.args]
            # typing rule of the AST: a math function is taken in the scalar type unless its first argument is REAL
            cplx = any(isinstance(a, complex) for a in args) or (self.scalar_complex and e.args[0].dtype != L.DataType.REAL)
            if cplx and e.args[0].dtype == L.DataType.REAL:
                self.ambiguous = "math function with REAL first argument and complex other argument"
            if cplx and e.function not in ("exp", "sin", "cos", "sinh", "cosh", "abs", "real", "imag", "conj"):
                # functions with branch cuts: the result depends on the sign of zero parts, which Python's complex arithmetic
                # does not track the way C99 Annex G / numpy do; the interpreter is not a reference there
                self.branch_cut_function = True
            if self.scalar_complex and e.args[0].dtype == L.DataType.INT:
                # C takes it in the scalar (complex) type, Python in the real type: they differ in the sign of zero
                # imaginary parts, which matters on branch cuts
                self.int_typed_math = True
            r = _cfun(e.function, args, cplx)
            if cplx and e.function in ("abs", "real", "imag") and isinstance(r, complex):
                r = r.real
            if not isinstance(r, complex):
                r = float(r)  # libm functions return floating point also for integer arguments
                if math.isnan(r):
                    self.saw_nan = True
            elif math.isnan(r.real) or math.isnan(r.imag):
                self.saw_nan = True
            return r
        if isinstance(e, L.NaryOp):
            vals = [self.ev(a) for a in e.args]
            r = vals[0]
            for v in vals[1:]:
                r = r + v if isinstance(e, L.Sum) else r * v
            return r
        if isinstance(e, L.AssignOp):
            raise AstError("assignment used as expression")
        if isinstance(e, L.BinOp):
            if isinstance(e, L.And):
                return bool(self.ev(e.lhs)) and bool(self.ev(e.rhs))
            if isinstance(e, L.Or):
                return bool(self.ev(e.lhs)) or bool(self.ev(e.rhs))
            a, b = self.ev(e.lhs), self.ev(e.rhs)
            if isinstance(e, L.Add):
                return a + b
            if isinstance(e, L.Sub):
                return a - b
            if isinstance(e, L.Mul):
                return a * b
            if isinstance(e, L.Div):
                if isinstance(a, (int, np.integer)) and isinstance(b, (int, np.integer)) and not isinstance(a, bool):
                    self.ambiguous = "integer / integer (C truncates, Python does not)"
                    if b == 0:
                        raise AstError("integer division by zero")
                    q = abs(a) // abs(b)
                    return q if (a >= 0) == (b >= 0) else -q  # C semantics: truncation toward zero
                return a / b
            if isinstance(e, L.EQ):
                return a == b
            if isinstance(e, L.NE):
                return a != b
            if isinstance(e, L.LT):
                return a < b
            if isinstance(e, L.GT):
                return a > b
            if isinstance(e, L.LE):
                return a <= b
            if isinstance(e, L.GE):
                return a >= b
        raise Unsupported(f"expression node {type(e).__name__}")

    # ---- statements
    def run(self, node):
        import ffcx.codegeneration.lnodes as L

        self.n_stmts += 1
        if self.n_stmts > self.max_steps:
            raise Unsupported("step budget exceeded")
        if isinstance(node, L.StatementList):
            for s in node.statements:
                self.run(s)
            return
        if isinstance(node, L.Section):
            # C formatter: declarations are emitted at the enclosing level, statements inside { }
            for d in node.declarations:
                self.run(d)
            self.scopes.append({})
            try:
                for s in node.statements:
                    self.run(s)
            finally:
                self.scopes.pop()
            return
        if isinstance(node, L.Comment):
            return
        if isinstance(node, L.VariableDecl):
            if node.symbol.name in self.scopes[-1]:
                raise AstError(f"redeclaration of {node.symbol.name} in the same scope")
            val = self.ev(node.value) if node.value is not None else None
            self.decl_types[node.symbol.name] = node.symbol.dtype
            self.scopes[-1][node.symbol.name] = self._convert(node.symbol.dtype, val)
            return
        if isinstance(node, L.ArrayDecl):
            name = node.symbol.name
            if name in self.scopes[-1]:
                raise AstError(f"redeclaration of {name} in the same scope")
            cplx = node.values is not None and np.iscomplexobj(node.values)
            dt = complex if (cplx or node.symbol.dtype == L.DataType.SCALAR and self.scalar_complex) else float
            if node.symbol.dtype == L.DataType.INT:
                dt = np.int64  # integer tables (e.g. <cell>_facet_edge_vertices) are used as subscripts
            self.scopes[-1][name] = Array(name, node.sizes, node.values, dtype=dt)
            return
        if isinstance(node, L.ForRange):
            b, e_ = self.ev(node.begin), self.ev(node.end)
            idx = node.index
            if not isinstance(idx, L.Symbol):
                raise Unsupported("loop over MultiIndex")
            for i in range(int(b), int(e_)):
                self.scopes.append({idx.name: i})
                try:
                    self.run(node.body)
                finally:
                    self.scopes.pop()
            return
        if isinstance(node, L.Statement):
            e = node.expr
            if isinstance(e, L.AssignOp):
                v = self.ev(e.rhs)
                lhs = e.lhs
                add = isinstance(e, L.AssignAdd)
                if not isinstance(e, (L.Assign, L.AssignAdd)):
                    raise Unsupported(type(e).__name__)
                if isinstance(lhs, L.ArrayAccess):
                    arr = self._array(lhs.array.name)
                    idx = [self.ev(i) for i in lhs.indices]
                    self.n_access += 1
                    arr.set(idx, v, add)
                elif isinstance(lhs, L.Symbol):
                    if add:
                        cur = self.lookup(lhs.name)
                        if cur is None:
                            raise AstError(f"'+=' on {lhs.name} before it was initialised")
                        v = cur + v
                    self.assign_scalar(lhs.name, v)
                else:
                    raise Unsupported(f"assignment target {type(lhs).__name__}")
                return
            self.ev(e)
            return
        raise Unsupported(f"statement node {type(node).__name__}")

    scalar_complex = False
