"""Independent numerical evaluator of UFL forms and expressions (the reference model).

Uses UFL (symbolic lowering) and basix (element tabulation, quadrature rules, reference
topology/geometry).  Uses *no* ffcx code.  See DESIGN.md 2.3.

Values are carried as numpy arrays of shape  value_shape + (P, N0, N1)  where P is the
number of points, N0/N1 the (macro) dimensions of argument 0/1 (1 when absent).
"""

from __future__ import annotations

import itertools
import math

import basix
import basix.ufl
import numpy as np
import ufl
import ufl.algorithms
import ufl.classes as C
from ufl.algorithms.apply_algebra_lowering import apply_algebra_lowering
from ufl.algorithms.apply_derivatives import apply_derivatives
from ufl.algorithms.apply_function_pullbacks import apply_function_pullbacks
from ufl.algorithms.apply_geometry_lowering import apply_geometry_lowering


class Unsupported(Exception):
    """The oracle does not know this node: the case is inconclusive, never guessed."""


# ---------------------------------------------------------------- reference cells
def celltype(cellname: str) -> basix.CellType:
    return basix.CellType.point if cellname == "vertex" else basix.CellType[cellname]


def tdim_of(cellname: str) -> int:
    return len(basix.topology(celltype(cellname))) - 1


def num_entities(cellname: str, dim: int) -> int:
    return len(basix.topology(celltype(cellname))[dim])


def entity_vertices(cellname: str, dim: int, i: int) -> np.ndarray:
    ct = celltype(cellname)
    geom = np.asarray(basix.geometry(ct))
    return geom[basix.topology(ct)[dim][i]]


def facet_celltype(cellname: str, f: int) -> basix.CellType:
    td = tdim_of(cellname)
    return basix.cell.subentity_types(celltype(cellname))[td - 1][f]


def map_entity_points(cellname: str, dim: int, i: int, Xe: np.ndarray) -> np.ndarray:
    """Reference entity -> reference cell: v0 + sum_k s_k (v_k - v0) using the first
    vertices of the sub-entity as the affine frame (basix sub-entity vertex order)."""
    v = entity_vertices(cellname, dim, i)
    if dim == 0:
        return v[:1].copy()
    out = np.tile(v[0], (Xe.shape[0], 1)).astype(float)
    for k in range(Xe.shape[1]):
        out += np.outer(Xe[:, k], v[k + 1] - v[0])
    return out


def cell_facet_jacobian(cellname: str, f: int) -> np.ndarray:
    td = tdim_of(cellname)
    v = entity_vertices(cellname, td - 1, f)
    return np.stack([v[i + 1] - v[0] for i in range(td - 1)], axis=1) if td > 1 else np.zeros((1, 0))


def reference_normal(cellname: str, f: int) -> np.ndarray:
    """Outward unit normal of facet f of the reference cell, from topology/geometry only."""
    ct = celltype(cellname)
    td = tdim_of(cellname)
    geom = np.asarray(basix.geometry(ct))
    v = entity_vertices(cellname, td - 1, f)
    if td == 1:
        nrm = np.array([1.0])
    elif td == 2:
        t = v[1] - v[0]
        nrm = np.array([t[1], -t[0]])
    else:
        nrm = np.cross(v[1] - v[0], v[2] - v[0])
    nrm = nrm / np.linalg.norm(nrm)
    if np.dot(nrm, v.mean(axis=0) - geom.mean(axis=0)) < 0:
        nrm = -nrm
    return nrm


def permute_facet_points(facet_ct: basix.CellType, X: np.ndarray, code: int) -> np.ndarray:
    """Documented quadrature-permutation semantics: N//2 rotations, then N%2 reflections."""
    rot, ref = int(code) // 2, int(code) % 2
    X = np.array(X, dtype=float, copy=True)
    if facet_ct == basix.CellType.point:
        return X
    if facet_ct == basix.CellType.interval:
        for _ in range(ref):
            X = 1.0 - X
        return X
    for _ in range(rot):
        if facet_ct == basix.CellType.triangle:
            X = np.stack([X[:, 1], 1.0 - X[:, 0] - X[:, 1]], axis=1)
        elif facet_ct == basix.CellType.quadrilateral:
            X = np.stack([X[:, 1], 1.0 - X[:, 0]], axis=1)
        else:
            raise Unsupported(f"facet type {facet_ct}")
    for _ in range(ref):
        X = X[:, ::-1].copy()
    return X


def num_facet_perms(facet_ct: basix.CellType) -> int:
    return {
        basix.CellType.point: 1,
        basix.CellType.interval: 2,
        basix.CellType.triangle: 6,
        basix.CellType.quadrilateral: 8,
    }[facet_ct]


# ---------------------------------------------------------------- element tabulation
def _deriv_multi_indices(tdim, k):
    return list(itertools.product(range(tdim), repeat=k))


def tabulate_ref(e, X: np.ndarray, k: int) -> np.ndarray:
    """Reference basis values and k-th derivatives at reference points X.

    Returns array of shape (ref_size,) + (tdim,)*k + (P, ndofs), assembled from the
    *underlying basix elements* by the definitions of blocked / mixed / real /
    quadrature elements.
    """
    tdim = X.shape[1]
    P = X.shape[0]
    name = type(e).__name__
    if name == "_BasixElement":
        t = e.basix_element.tabulate(k, X)  # (nder, P, ndofs, vs)
        ndofs, vs = t.shape[2], t.shape[3]
        out = np.zeros((vs,) + (tdim,) * k + (P, ndofs))
        for mi in _deriv_multi_indices(tdim, k):
            counts = [mi.count(d) for d in range(tdim)]
            idx = basix.index(*counts) if tdim > 0 else 0
            for c in range(vs):
                out[(c,) + mi] = t[idx, :, :, c]
        return out
    if name == "_BlockedElement":
        sub = e._sub_element
        ts = tabulate_ref(sub, X, k)
        if ts.shape[0] != 1:
            raise Unsupported("blocked element of non-scalar sub-element")
        bs = e.block_size
        nsub = ts.shape[-1]
        out = np.zeros((bs,) + (tdim,) * k + (P, nsub * bs))
        for c in range(bs):
            out[c][..., c::bs] = ts[0]
        return out
    if name == "_MixedElement":
        tabs = [tabulate_ref(s, X, k) for s in e.sub_elements]
        rs = sum(t.shape[0] for t in tabs)
        nd = sum(t.shape[-1] for t in tabs)
        out = np.zeros((rs,) + (tdim,) * k + (P, nd))
        r0 = d0 = 0
        for t in tabs:
            out[r0 : r0 + t.shape[0], ..., d0 : d0 + t.shape[-1]] = t
            r0 += t.shape[0]
            d0 += t.shape[-1]
        return out
    if name == "_RealElement":
        n = e.dim
        out = np.zeros((n,) + (tdim,) * k + (P, n))
        if k == 0:
            for c in range(n):
                out[c, :, c] = 1.0
        return out
    if name == "_QuadratureElement":
        if k != 0:
            raise Unsupported("derivative of quadrature element")
        pts = np.asarray(e._points)
        if pts.shape != X.shape or not np.allclose(pts, X, atol=1e-12):
            raise Unsupported("quadrature element evaluated away from its own points")
        n = pts.shape[0]
        out = np.zeros((1, P, n))
        out[0] = np.eye(n)
        return out
    raise Unsupported(f"element class {name}")


def element_reference_table(el, X, k):
    """tabulate_ref reshaped to reference_value_shape + (tdim,)*k + (P, ndofs).

    The flat reference-value slot -> sub-element rule is UFL's (cumulative reference sizes;
    a symmetric blocked element uses the leading flat slots of its reference shape)."""
    tab = tabulate_ref(el, X, k)
    rshape = tuple(el.reference_value_shape)
    rsize = int(np.prod(rshape)) if rshape else 1
    if tab.shape[0] != rsize:
        pad = np.zeros((rsize,) + tab.shape[1:])
        pad[: tab.shape[0]] = tab
        tab = pad
    return tab.reshape(rshape + tab.shape[1:])


# ---------------------------------------------------------------- math functions
def _erf(a):
    if np.iscomplexobj(a):
        raise Unsupported("erf of complex argument")
    return np.vectorize(math.erf, otypes=[float])(a)


_MATH = {
    "sqrt": np.sqrt,
    "exp": np.exp,
    "ln": np.log,
    "cos": np.cos,
    "sin": np.sin,
    "tan": np.tan,
    "cosh": np.cosh,
    "sinh": np.sinh,
    "tanh": np.tanh,
    "acos": np.arccos,
    "asin": np.arcsin,
    "atan": np.arctan,
    "erf": _erf,
}


def _bessel(kind, nu, x):
    import sympy

    f = {"bessel_j": sympy.besselj, "bessel_y": sympy.bessely, "bessel_i": sympy.besseli, "bessel_k": sympy.besselk}[kind]
    if np.iscomplexobj(x):
        raise Unsupported("bessel of complex argument")
    def one(v):
        try:
            order = int(nu) if float(nu) == int(nu) else sympy.Float(float(nu), 30)  # (never truncate a real order)
            return float(f(order, sympy.Float(float(v), 30)).evalf(20))
        except TypeError:
            raise Unsupported("bessel function outside its real domain for this data")

    return np.vectorize(one, otypes=[float])(x)


# ---------------------------------------------------------------- evaluator
class Side:
    """One cell of the integration entity: reference points on the cell, its coordinate dofs
    (nnodes x 3), and the local index of the entity (facet/vertex) in that cell."""

    def __init__(self, X, xdofs, entity=0, Xe=None, edim=None):
        self.X = np.asarray(X, dtype=float)
        self.xdofs = np.asarray(xdofs, dtype=float)
        self.entity = int(entity)
        self.Xe = None if Xe is None else np.asarray(Xe, dtype=float)  # points on the reference integration entity (unpermuted)
        self.edim = edim


class Evaluator:
    def __init__(self, cellname, sides, weights, wvals, cvals, arg_dims, interior=False, dtype=float):
        self.cellname = cellname
        self.sides = sides
        self.weights = np.asarray(weights)
        self.wvals = wvals
        self.cvals = cvals
        self.arg_dims = arg_dims  # {argument number: macro dimension}
        self.interior = interior
        self.memo = {}
        self.P = len(self.weights)
        self.dtype = dtype
        self.nodes_seen: set[str] = set()

    def ev(self, e, env, side):
        key = (id(e), side, tuple((i, env[i]) for i in e.ufl_free_indices))
        r = self.memo.get(key)
        if r is None:
            r = self._ev(e, env, side)
            self.memo[key] = r
        return r

    @staticmethod
    def _b(a):  # append (P, N0, N1) broadcast axes to a constant array
        a = np.asarray(a)
        return a.reshape(a.shape + (1, 1, 1))

    def _side(self, side):
        return self.sides[side if side is not None else "+"]

    def _terminal_chain(self, e):
        k = 0
        rv = False
        side = None
        t = e
        while not t._ufl_is_terminal_:
            if isinstance(t, C.ReferenceGrad):
                k += 1
            elif isinstance(t, C.ReferenceValue):
                rv = True
            elif isinstance(t, C.Restricted):
                side = t._side
            else:
                raise Unsupported(f"modifier {type(t).__name__} on terminal")
            t = t.ufl_operands[0]
        return t, k, rv, side

    def _modified_terminal(self, e, side):
        t, k, rv, rside = self._terminal_chain(e)
        if rside is not None:
            side = rside
        s = self._side(side)
        self.nodes_seen.add(type(t).__name__ + (f"/d{k}" if k else ""))
        if isinstance(t, (C.SpatialCoordinate, C.Jacobian)):
            if ufl.domain.extract_unique_domain(t).topological_dimension != s.X.shape[1]:
                raise Unsupported("geometry of a lower-dimensional mesh in a mixed-dimensional form")
        if isinstance(t, C.SpatialCoordinate):
            ce = ufl.domain.extract_unique_domain(t).ufl_coordinate_element()
            gdim = ce.reference_value_shape[0]
            scal = ce._sub_element
            tab = tabulate_ref(scal, s.X, k)[0]  # (tdim,)*k + (P, nnodes)
            out = np.einsum("...pn,ng->g...p", tab, s.xdofs[:, :gdim])
            return out.reshape(out.shape + (1, 1))
        if isinstance(t, C.FormArgument):
            if not rv:
                raise Unsupported("form argument without reference value (pullback not applied)")
            el = t.ufl_function_space().ufl_element()
            eldim = el.cell.topological_dimension
            if eldim != s.X.shape[1]:
                # a function living on a lower-dimensional mesh (mixed-dimensional form): it is evaluated at the points of the
                # reference integration entity itself; only values are supported here
                if k != 0 or s.Xe is None or s.edim != eldim:
                    raise Unsupported("derivative of / unexpected codimension of a function on a lower-dimensional mesh")
                Xpts = s.Xe if eldim > 0 else np.zeros((s.X.shape[0], 0))
                tab = element_reference_table(el, Xpts, 0)
            else:
                tab = element_reference_table(el, s.X, k)  # rshape+(tdim,)*k+(P, nd)
            nd = tab.shape[-1]
            if isinstance(t, C.Coefficient):
                w = self.wvals[t]
                wv = w[side if side is not None else "+"] if isinstance(w, dict) else w
                out = tab @ np.asarray(wv)
                return out.reshape(out.shape + (1, 1))
            num = t.number()
            full = self.arg_dims[num]
            if self.interior:
                big = np.zeros(tab.shape[:-1] + (full,), dtype=tab.dtype)
                off = 0 if (side in (None, "+")) else nd
                big[..., off : off + nd] = tab
                tab = big
            pos = sorted(self.arg_dims).index(num)
            if pos == 0:
                return tab.reshape(tab.shape + (1,))
            return tab.reshape(tab.shape[:-1] + (1, tab.shape[-1]))
        if isinstance(t, C.Jacobian):
            # J = ReferenceGrad(x); derivatives of J are higher reference derivatives of x
            ce = ufl.domain.extract_unique_domain(t).ufl_coordinate_element()
            gdim = ce.reference_value_shape[0]
            tab = tabulate_ref(ce._sub_element, s.X, k + 1)[0]
            out = np.einsum("...pn,ng->g...p", tab, s.xdofs[:, :gdim])
            return out.reshape(out.shape + (1, 1))
        raise Unsupported(f"terminal {type(t).__name__}")

    def _ev(self, e, env, side):
        b = self._b
        tn = type(e).__name__
        if e._ufl_is_terminal_ or isinstance(e, (C.ReferenceGrad, C.ReferenceValue)):
            if isinstance(e, C.Zero):
                return np.zeros(e.ufl_shape + (1, 1, 1))
            if isinstance(e, C.ComplexValue):
                return b(complex(e.value()))
            if isinstance(e, C.ScalarValue):
                return b(e.value())
            if isinstance(e, C.Identity):
                return b(np.eye(e.ufl_shape[0]))
            if isinstance(e, C.PermutationSymbol):
                n = e.ufl_shape[0]
                eps = np.zeros((n,) * n)
                for p in itertools.permutations(range(n)):
                    eps[p] = np.linalg.det(np.eye(n)[list(p)])
                return b(eps)
            if isinstance(e, C.Constant):
                self.nodes_seen.add("Constant")
                return b(np.asarray(self.cvals[e]).reshape(e.ufl_shape))
            if isinstance(e, C.QuadratureWeight):
                return self.weights.reshape(-1, 1, 1)
            if isinstance(e, (C.ReferenceGrad, C.ReferenceValue, C.SpatialCoordinate, C.FormArgument, C.Jacobian)):
                return self._modified_terminal(e, side)
            self.nodes_seen.add(tn)
            s = self._side(side)
            if isinstance(e, C.CellFacetJacobian):
                return b(cell_facet_jacobian(self.cellname, s.entity))
            if isinstance(e, C.CellRidgeJacobian):
                td_ = tdim_of(self.cellname)
                v = entity_vertices(self.cellname, td_ - 2, s.entity)
                return b(np.stack([v[i + 1] - v[0] for i in range(td_ - 2)], axis=1) if td_ > 2 else np.zeros((td_, 0)))
            if isinstance(e, C.ReferenceNormal):
                return b(reference_normal(self.cellname, s.entity))
            if isinstance(e, C.ReferenceCellVolume):
                return b(basix.cell.volume(celltype(self.cellname)))
            if isinstance(e, C.ReferenceFacetVolume):
                ct = celltype(self.cellname)
                vols = basix.cell.facet_reference_volumes(ct)
                if len(set(np.round(vols, 14))) != 1:
                    raise Unsupported("ReferenceFacetVolume on mixed-facet cell")
                return b(vols[0])
            if isinstance(e, (C.CellEdgeVectors, C.CellVertices, C.FacetEdgeVectors)):
                ct = celltype(self.cellname)
                topo = basix.topology(ct)
                td = len(topo) - 1
                ce = ufl.domain.extract_unique_domain(e).ufl_coordinate_element()
                gdim = ce.reference_value_shape[0]
                scal = ce._sub_element
                if scal.embedded_superdegree > 1 and not isinstance(e, C.CellVertices):
                    pass  # UFL itself restricts these to affine cells
                vd = [scal.entity_dofs[0][v][0] for v in range(len(topo[0]))]
                xs = s.xdofs[:, :gdim]
                if isinstance(e, C.CellVertices):
                    return b(np.array([xs[d] for d in vd]))
                if isinstance(e, C.CellEdgeVectors):
                    return b(np.array([xs[vd[v1]] - xs[vd[v0]] for v0, v1 in topo[1]]))
                # facet edge vectors: edges of facet `entity` (3D only)
                if td != 3:
                    raise Unsupported("FacetEdgeVectors outside 3D")
                conn = basix.cell.sub_entity_connectivity(ct)[2][s.entity][1]
                return b(np.array([xs[vd[topo[1][ed][1]]] - xs[vd[topo[1][ed][0]]] for ed in conn]))
            if isinstance(e, C.CellOrientation):
                return b(1.0)
            raise Unsupported(f"terminal {tn}")
        self.nodes_seen.add(tn)
        ops = e.ufl_operands
        if isinstance(e, C.Restricted):
            return self.ev(ops[0], env, e._side)
        if isinstance(e, C.Variable):
            return self.ev(ops[0], env, side)
        if isinstance(e, C.Sum):
            return self.ev(ops[0], env, side) + self.ev(ops[1], env, side)
        if isinstance(e, C.Product):
            return self.ev(ops[0], env, side) * self.ev(ops[1], env, side)
        if isinstance(e, C.Division):
            return self.ev(ops[0], env, side) / self.ev(ops[1], env, side)
        if isinstance(e, C.Power):
            a, p = self.ev(ops[0], env, side), self.ev(ops[1], env, side)
            if not np.iscomplexobj(a) and not np.iscomplexobj(p):
                if np.any((a < 0) & (p != np.round(p))):
                    raise Unsupported("fractional power of negative real")
            return a**p
        if isinstance(e, C.Abs):
            return np.abs(self.ev(ops[0], env, side))
        if isinstance(e, C.Conj):
            return np.conj(self.ev(ops[0], env, side))
        if isinstance(e, C.Real):
            return np.real(self.ev(ops[0], env, side))
        if isinstance(e, C.Imag):
            return np.imag(self.ev(ops[0], env, side))
        if isinstance(e, C.BesselFunction):
            return _bessel(e._ufl_handler_name_, self.ev(ops[0], env, side).ravel()[0], self.ev(ops[1], env, side))
        if isinstance(e, C.MathFunction):
            fn = _MATH.get(e._ufl_handler_name_)
            if fn is None:
                raise Unsupported(f"math function {e._ufl_handler_name_}")
            return fn(self.ev(ops[0], env, side))
        if isinstance(e, C.Atan2):
            return np.arctan2(self.ev(ops[0], env, side), self.ev(ops[1], env, side))
        if isinstance(e, C.MinValue):
            return np.minimum(self.ev(ops[0], env, side), self.ev(ops[1], env, side))
        if isinstance(e, C.MaxValue):
            return np.maximum(self.ev(ops[0], env, side), self.ev(ops[1], env, side))
        if isinstance(e, C.Condition):
            a = [self.ev(o, env, side) for o in ops]
            if tn in ("LT", "GT", "LE", "GE"):
                a = [np.real(x) if np.iscomplexobj(x) and np.all(np.imag(x) == 0) else x for x in a]
            if tn == "LT":
                return a[0] < a[1]
            if tn == "GT":
                return a[0] > a[1]
            if tn == "LE":
                return a[0] <= a[1]
            if tn == "GE":
                return a[0] >= a[1]
            if tn == "EQ":
                return a[0] == a[1]
            if tn == "NE":
                return a[0] != a[1]
            if tn == "AndCondition":
                return a[0] & a[1]
            if tn == "OrCondition":
                return a[0] | a[1]
            if tn == "NotCondition":
                return ~a[0]
            raise Unsupported(tn)
        if isinstance(e, C.Conditional):
            c, t, f = (self.ev(o, env, side) for o in ops)
            return np.where(c, t, f)
        if isinstance(e, C.Indexed):
            A = self.ev(ops[0], env, side)
            idx = tuple(int(i) if isinstance(i, C.FixedIndex) else env[i.count()] for i in ops[1])
            return A[idx]
        if isinstance(e, C.IndexSum):
            (i,) = ops[1]
            d = ops[0].ufl_index_dimensions[ops[0].ufl_free_indices.index(i.count())]
            tot = 0
            for v in range(d):
                tot = tot + self.ev(ops[0], {**env, i.count(): v}, side)
            return tot
        if isinstance(e, C.ComponentTensor):
            mi = ops[1]
            sh = e.ufl_shape
            parts = []
            for comp in itertools.product(*[range(s) for s in sh]):
                en = dict(env)
                for i, v in zip(mi, comp):
                    en[i.count()] = v
                parts.append(self.ev(ops[0], en, side))
            parts = np.broadcast_arrays(*parts)
            return np.stack(parts).reshape(sh + parts[0].shape)
        if isinstance(e, C.ListTensor):
            parts = np.broadcast_arrays(*[self.ev(o, env, side) for o in ops])
            return np.stack(parts)
        raise Unsupported(f"operator {tn}")


# ---------------------------------------------------------------- lowering (oracle's own flags)
def lower_form(form, complex_mode=False):
    return ufl.algorithms.compute_form_data(
        form,
        do_apply_function_pullbacks=True,
        do_apply_integral_scaling=True,
        do_apply_geometry_lowering=True,
        preserve_geometry_types=(),
        do_apply_restrictions=True,
        do_append_everywhere_integrals=False,
        complex_mode=complex_mode,
    )


def lower_expression(e, complex_mode=False):
    e = apply_algebra_lowering(e)
    e = apply_derivatives(e)
    e = apply_function_pullbacks(e)
    e = apply_geometry_lowering(e, ())
    e = apply_derivatives(e)
    e = apply_geometry_lowering(e, ())
    e = apply_derivatives(e)
    if not complex_mode:
        from ufl.algorithms.remove_complex_nodes import remove_complex_nodes

        e = remove_complex_nodes(e)
    return e


# ---------------------------------------------------------------- quadrature rules by contract
def polyset_for(cellname, elements):
    ct = celltype(cellname)
    pt = basix.PolysetType.standard
    for e in elements:
        pt = basix.polyset_superset(ct, pt, e.polyset_type)
    return pt


def rule_for(itype, cellname, entity_ct, md, argument_elements, integral_elements, sum_factorization=False):
    """(points on the reference integration entity, weights, description) per the documented
    contract: custom quadrature of quadrature elements > metadata degree/scheme > estimated
    degree; 'vertex' scheme = entity vertices with equal weights volume/n."""
    for e in integral_elements:
        if getattr(e, "has_custom_quadrature", False):
            p, w = e.custom_quadrature()
            return np.asarray(p, dtype=float), np.asarray(w, dtype=float), "custom(quadrature element)"
    if (md.get("quadrature_rule") or "default") == "custom":
        # user-supplied points/weights on the reference integration entity
        return np.asarray(md["quadrature_points"], dtype=float), np.asarray(md["quadrature_weights"], dtype=float), "custom(metadata)"
    deg = md.get("quadrature_degree", -1)
    if deg is None or (isinstance(deg, (int, np.integer)) and deg < 0) or deg == "auto":
        deg = int(np.max(md["estimated_polynomial_degree"]))
    deg = int(deg)
    scheme = md.get("quadrature_rule", "default") or "default"
    if entity_ct == basix.CellType.point:
        return np.zeros((1, 0)), np.ones(1), "point"
    if scheme == "vertex":
        pts = np.asarray(basix.cell.geometry(entity_ct), dtype=float)
        vol = basix.cell.volume(entity_ct)
        return pts, np.full(pts.shape[0], vol / pts.shape[0]), "vertex"
    pt = basix.PolysetType.standard
    for e in argument_elements:
        # macro ("iso") elements are piecewise polynomials on sub-cells; their traces on facets are piecewise on sub-facets,
        # so the composite rule is the right one on every integration entity
        pt = basix.polyset_superset(entity_ct, pt, e.polyset_type)
    qt = basix.quadrature.string_to_type(scheme)
    if sum_factorization and itype == "cell" and cellname in ("quadrilateral", "hexahedron"):
        p1, w1 = basix.make_quadrature(basix.CellType.interval, deg, rule=qt, polyset_type=pt)
        d = 2 if cellname == "quadrilateral" else 3
        pts = np.array([tuple(i[0] for i in p) for p in itertools.product(*[p1] * d)])
        wts = np.array([np.prod(p) for p in itertools.product(*[w1] * d)])
        return pts, wts, f"{scheme}/{deg}/tensor"
    p, w = basix.make_quadrature(entity_ct, deg, rule=qt, polyset_type=pt)
    return np.asarray(p), np.asarray(w), f"{scheme}/{deg}"


# ---------------------------------------------------------------- integrals
ITYPES = ("cell", "exterior_facet", "interior_facet", "vertex", "ridge")


class FormOracle:
    """Reference tensors for every (integral type, subdomain id) of one form."""

    def __init__(self, form, complex_mode=False, sum_factorization=False, diagonal=False):
        self.form = form
        self.complex_mode = complex_mode
        self.sum_factorization = sum_factorization
        self.diagonal = diagonal
        self.fd = lower_form(form, complex_mode)
        dom = self.fd.integral_data[0].domain
        domains = {id(idt.domain) for idt in self.fd.integral_data}
        # several integration domains are not supported; functions on other meshes of the same or lower dimension are
        self.multi_domain = len(domains) > 1
        self.mixed_dimensional = len({d.topological_dimension for d in ufl.domain.extract_domains(form)}) > 1
        self.domain = dom
        self.cellname = dom.ufl_cell().cellname
        self.tdim = tdim_of(self.cellname)
        self.coord_element = dom.ufl_coordinate_element()
        self.arguments = sorted(form.arguments(), key=lambda a: (a.number(), a.part() or 0))
        self.arg_elements = [a.ufl_function_space().ufl_element() for a in self.arguments]
        self.reduced_coefficients = list(self.fd.reduced_coefficients)
        self.original_coefficients = list(form.coefficients())
        self.constants = list(form.constants())
        self.nodes_seen: set[str] = set()

    # keys of the dispatch table the user declared: {(itype, id)} with "otherwise" -> -1
    def keys(self):
        out = []
        for idt in self.fd.integral_data:
            sid = idt.subdomain_id
            sids = sid if isinstance(sid, tuple) else (sid,)
            for s in sids:
                out.append((idt.integral_type, -1 if s == "otherwise" else int(s)))
        return out

    def tensor_shape(self, itype):
        m = 2 if itype == "interior_facet" else 1
        dims = [m * e.dim for e in self.arg_elements]
        if self.diagonal and len(dims) == 2:
            dims = dims[:1]
        return tuple(dims)

    def entity_info(self, itype):
        """(entity dimension, number of entities)."""
        td = self.tdim
        d = {"cell": td, "exterior_facet": td - 1, "interior_facet": td - 1, "vertex": 0, "ridge": td - 2}[itype]
        return d, (1 if itype == "cell" else num_entities(self.cellname, d))

    def tensor(self, itype, sid, data, entities=(0, 0), perms=(0, 0)):
        """Return (R, S, info): reference tensor for the kernel registered under (itype, sid),
        magnitude tensor, and the rules used.

        data: {"x": {"+": xdofs, "-": xdofs}, "w": {coef: {"+": arr, "-": arr}}, "c": {const: arr}}"""
        if self.multi_domain:
            raise Unsupported("multi-domain form")
        interior = itype == "interior_facet"
        dims = [(2 if interior else 1) * e.dim for e in self.arg_elements]
        arg_dims = {a.number(): d for a, d in zip(self.arguments, dims)}
        full_shape = tuple(dims)
        dt = complex if self.complex_mode else float
        R = np.zeros(full_shape if full_shape else (1,), dtype=dt)
        S = np.zeros(R.shape)
        info = {"rules": [], "npts": 0}
        edim, _ = self.entity_info(itype)
        hit = False
        for idt in self.fd.integral_data:
            if idt.integral_type != itype:
                continue
            s = idt.subdomain_id
            sids = s if isinstance(s, tuple) else (s,)
            if (-1 if sid in ("otherwise", -1) else sid) not in [(-1 if q == "otherwise" else q) for q in sids]:
                continue
            hit = True
            for itg in idt.integrals:
                md = itg.metadata()
                els = ufl.algorithms.extract_elements(itg)
                sides = {}
                Xq = wq = None
                for sd, ent, pc in (("+", entities[0], perms[0]), ("-", entities[1], perms[1])):
                    if sd == "-" and not interior:
                        continue
                    if edim == self.tdim:
                        ect = celltype(self.cellname)
                    else:
                        ect = basix.cell.subentity_types(celltype(self.cellname))[edim][ent]
                    Xq, wq, desc = rule_for(
                        itype, self.cellname, ect, md, self.arg_elements, els, self.sum_factorization
                    )
                    if edim == self.tdim:
                        Xc = Xq
                    else:
                        permuted = edim == self.tdim - 1 or (itype == "ridge" and self.tdim == 3)
                        Xp = permute_facet_points(ect, Xq, pc) if permuted else Xq
                        Xc = map_entity_points(self.cellname, edim, ent, Xp)
                    sides[sd] = Side(Xc, data["x"][sd], ent, Xe=Xq, edim=edim)
                info["rules"].append(desc)
                info["npts"] += len(wq)
                ev = Evaluator(self.cellname, sides, wq, data["w"], data["c"], arg_dims, interior=interior, dtype=dt)
                val = ev.ev(itg.integrand(), {}, None)
                self.nodes_seen |= ev.nodes_seen
                shp = (len(wq),) + tuple(arg_dims.get(i, 1) for i in (0, 1)) if len(arg_dims) != 1 else None
                if len(arg_dims) == 1:
                    (n0,) = arg_dims.values()
                    val = np.broadcast_to(val, (len(wq), n0, 1))
                else:
                    val = np.broadcast_to(val, shp)
                R += val.sum(axis=0).reshape(R.shape)
                S += np.abs(val).sum(axis=0).reshape(R.shape)
        if not hit:
            raise KeyError((itype, sid))
        if self.diagonal and len(dims) == 2:
            R = np.diagonal(R).copy()
            S = np.diagonal(S).copy()
        return R, S, info


class ExpressionOracle:
    def __init__(self, expr, points, complex_mode=False):
        self.expr = expr
        self.points = np.asarray(points, dtype=float)
        self.complex_mode = complex_mode
        self.lowered = lower_expression(expr, complex_mode)
        doms = ufl.domain.extract_domains(expr)
        self.domain = doms[0] if doms else None
        self.multi_domain = len(doms) > 1
        self.arguments = ufl.algorithms.extract_arguments(expr)
        self.coefficients = ufl.algorithms.extract_coefficients(expr)
        self.constants = ufl.algorithms.analysis.extract_constants(expr)
        self.nodes_seen: set[str] = set()

    def tensor(self, cellname, data, entity=0, perm=0):
        """A[point][component][argument dof] and magnitude."""
        if self.multi_domain:
            raise Unsupported("multi-domain expression")
        td = tdim_of(cellname)
        pts = self.points
        edim = pts.shape[1] if pts.ndim == 2 else td
        if edim == td:
            X = pts
        elif edim == td - 1:
            ect = basix.cell.subentity_types(celltype(cellname))[edim][entity]
            X = map_entity_points(cellname, edim, entity, permute_facet_points(ect, pts, perm))
        else:
            raise Unsupported("expression points on entity of codimension > 1")
        P = X.shape[0]
        if len(self.arguments) > 1:
            raise Unsupported("expression with more than one argument")
        if self.arguments:
            a = self.arguments[0]
            nd = a.ufl_function_space().ufl_element().dim
            arg_dims = {a.number(): nd}
        else:
            nd = 1
            arg_dims = {}
        dt = complex if self.complex_mode else float
        ev = Evaluator(cellname, {"+": Side(X, data["x"]["+"], entity)}, np.ones(P), data["w"], data["c"], arg_dims, dtype=dt)
        val = ev.ev(self.lowered, {}, None)
        self.nodes_seen |= ev.nodes_seen
        sh = tuple(self.expr.ufl_shape)
        ncomp = int(np.prod(sh)) if sh else 1
        # value_shape + (P, N0, N1) where the single argument sits in slot 0 of sorted arg_dims
        val = np.broadcast_to(val, sh + (P, nd, 1))
        val = val.reshape((ncomp, P, nd))
        return np.transpose(val, (1, 0, 2)).astype(dt)
