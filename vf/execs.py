"""E-san: ffcx-generated C linked with the generic driver (vf/csrc/driver.c) into a stand-alone
executable built with a sanitizer (or plain for valgrind / guard pages).  DESIGN 2.4.
"""

from __future__ import annotations

import os
import re
import struct
import subprocess

import numpy as np

import vf.repoenv  # noqa: F401
from vf import harness as H

CSRC = os.path.join(os.path.dirname(os.path.abspath(__file__)), "csrc")
SCODE = {"float32": 0, "float64": 1, "complex64": 2, "complex128": 3}

VARIANTS = {
    "asan": ["clang", "-std=c17", "-O1", "-g", "-fno-omit-frame-pointer", "-fsanitize=address,undefined",
             "-fno-sanitize-recover=all"],
    "tsan": ["clang", "-std=c17", "-O1", "-g", "-fsanitize=thread"],
    "plain": ["gcc", "-std=c17", "-O0", "-g"],
    "guard": ["gcc", "-std=c17", "-O2", "-g"],
}
RUN_ENV = {
    "asan": {"ASAN_OPTIONS": "halt_on_error=1:abort_on_error=0:detect_leaks=0:exitcode=66",
             "UBSAN_OPTIONS": "halt_on_error=1:print_stacktrace=1:exitcode=67"},
    "tsan": {"TSAN_OPTIONS": "halt_on_error=0:exitcode=68:report_signal_unsafe=0"},
}


def include_path():
    return os.path.join(vf.repoenv.REPO, "ffcx", "codegeneration")


def generate_source(ufl_objects, options=None, namespace="vfns"):
    """Run the real ffcx code generator (not the JIT) and return (header, source)."""
    import ffcx.compiler
    import ffcx.options

    opts = ffcx.options.get_options(dict(options or {}))
    code, suffixes = ffcx.compiler.compile_ufl_objects(list(ufl_objects), options=opts, namespace=namespace)
    return code[0], code[1]


def object_symbols(header):
    """[(kind, symbol)] in declaration order: kind 0 = form, 1 = expression (factory names, not aliases)."""
    out = []
    for m in re.finditer(r"extern\s+ufcx_(form|expression)\s+(\w+)\s*;", header):
        out.append((0 if m.group(1) == "form" else 1, m.group(2)))
    return out


class Driver:
    def __init__(self, workdir, header, source, variant="asan", extra_flags=(), alias_pointers=None):
        """alias_pointers: [(kind, name)] of `ufcx_form* name` / `ufcx_expression* name` variables through which the
        objects are reached (command-line compiler output) instead of the factory symbols."""
        self.workdir = workdir
        self.variant = variant
        os.makedirs(workdir, exist_ok=True)
        self.symbols = alias_pointers if alias_pointers is not None else object_symbols(header)
        with open(os.path.join(workdir, "k.h"), "w") as f:
            f.write(header)
        with open(os.path.join(workdir, "k.c"), "w") as f:
            f.write(source)
        stub = ['#include "k.h"']
        if alias_pointers is not None:
            stub.append("void* VF_OBJECTS[%d];" % max(1, len(self.symbols)))
            stub.append("void vf_init(void){ " + " ".join(f"VF_OBJECTS[{i}] = (void*){s};" for i, (_, s) in enumerate(self.symbols)) + " }")
        else:
            stub.append("void* VF_OBJECTS[] = {" + ", ".join(f"(void*)&{s}" for _, s in self.symbols) + ("" if self.symbols else "0") + "};")
        stub.append("int VF_KINDS[] = {" + ", ".join(str(k) for k, _ in self.symbols) + ("" if self.symbols else "0") + "};")
        stub.append(f"int VF_NOBJ = {len(self.symbols)};")
        with open(os.path.join(workdir, "stub.c"), "w") as f:
            f.write("\n".join(stub) + "\n")
        self.exe = os.path.join(workdir, f"drv-{variant}")
        cmd = VARIANTS[variant] + list(extra_flags) + ["-I", include_path(), "-I", workdir,
                                                       os.path.join(CSRC, "driver.c"), "stub.c", "k.c", "-lm", "-lpthread", "-o", self.exe]
        p = subprocess.run(cmd, cwd=workdir, capture_output=True, text=True, timeout=600)
        self.build_rc = p.returncode
        self.build_log = (p.stdout + p.stderr)[-6000:]

    def run(self, records, timeout=300, valgrind=False, tag="s"):
        """records: list of dicts {obj,k,scalar,A0,w,c,x,ent,perm,guard,reps,threads,uninit}.
        Returns (rc, stderr, outputs) with outputs[i] = list of A arrays for record i."""
        script = os.path.join(self.workdir, f"{tag}.bin")
        outp = os.path.join(self.workdir, f"{tag}.out")
        with open(script, "wb") as f:
            for r in records:
                dt, rdt, _, _ = H.SCALARS[r["scalar"]]
                A0 = np.ascontiguousarray(r["A0"], dtype=dt)
                w = np.ascontiguousarray(r["w"], dtype=dt)
                c = np.ascontiguousarray(r["c"], dtype=dt)
                x = np.ascontiguousarray(r["x"], dtype=rdt)
                ent = np.ascontiguousarray(r["ent"], dtype=np.int32) if r.get("ent") is not None else np.zeros(0, np.int32)
                perm = np.ascontiguousarray(r["perm"], dtype=np.uint8) if r.get("perm") is not None else np.zeros(0, np.uint8)
                un = r.get("uninit") or []
                hdr = [r["obj"], r.get("k", 0), SCODE[r["scalar"]], A0.size, w.size, c.size, x.size, ent.size, perm.size,
                       1 if r.get("guard") else 0, r.get("reps", 1), r.get("threads", 0), len(un), 0, 0, 0]
                f.write(struct.pack("<16i", *hdr))
                f.write(A0.tobytes())
                f.write(w.tobytes())
                for a, b in un:
                    f.write(struct.pack("<2i", a, b))
                f.write(c.tobytes())
                f.write(x.tobytes())
                f.write(ent.tobytes())
                f.write(perm.tobytes())
        env = dict(os.environ)
        env.update(RUN_ENV.get(self.variant, {}))
        cmd = [self.exe, script, outp]
        if valgrind:
            cmd = ["valgrind", "--tool=memcheck", "--error-exitcode=69", "--track-origins=no", "--quiet",
                   "--undef-value-errors=yes", "--partial-loads-ok=no"] + cmd
        try:
            p = subprocess.run(cmd, cwd=self.workdir, capture_output=True, text=True, errors="replace", timeout=timeout, env=env)
            rc, err = p.returncode, p.stderr
        except subprocess.TimeoutExpired as e:
            return None, "timeout", []
        outs = []
        if os.path.exists(outp):
            raw = open(outp, "rb").read()
            pos = 0
            for r in records:
                dt = H.SCALARS[r["scalar"]][0]
                n = int(np.asarray(r["A0"]).size)
                m = max(1, r.get("threads", 0) if r.get("threads", 0) > 1 else r.get("reps", 1))
                arrs = []
                for _ in range(m):
                    nb = n * np.dtype(dt).itemsize
                    if pos + nb > len(raw):
                        break
                    arrs.append(np.frombuffer(raw[pos: pos + nb], dtype=dt).copy())
                    pos += nb
                outs.append(arrs)
        for fn in (script, outp):
            try:
                os.unlink(fn)
            except OSError:
                pass
        return rc, err[-6000:], outs


def classify_sanitizer_report(err: str) -> str | None:
    """Name the kind of report found in sanitizer / valgrind stderr, or None."""
    pats = [
        (r"AddressSanitizer: ([\w-]+)", "asan:"),
        (r"runtime error: ([^\n]{0,80})", "ubsan:"),
        (r"ThreadSanitizer: ([\w ]+)", "tsan:"),
        (r"(Invalid (read|write) of size \d+)", "memcheck:"),
        (r"(Conditional jump or move depends on uninitialised value)", "memcheck:"),
        (r"(Use of uninitialised value)", "memcheck:"),
        (r"(Syscall param write\(buf\) points to uninitialised byte)", "memcheck:"),
    ]
    for pat, pre in pats:
        m = re.search(pat, err)
        if m:
            return pre + m.group(1)
    return None
