"""C12 — code generation is deterministic and history independent.

Each case = one recipe (forms or expressions) x backend; the real generator (ffcx.compiler.compile_ufl_objects) is run in
FRESH processes under different PYTHONHASHSEED values and process histories (unrelated UFL objects created first, other
forms compiled first in the same process, the same objects compiled twice, objects built early).  All outputs must be
byte-identical to the baseline (hash seed 0, no history).  On a difference the line diff is the witness and the classifier
names the mechanism.
"""

from __future__ import annotations

import difflib
import json
import os
import re
import subprocess
import time

from vf.common import wall_budget, HELD, INCONCLUSIVE, PY, VERIF, VIOLATED, Run, case_hash, main_wrapper, run_pool, seed

PID = "C12"


def gen(case, hashseed):
    env = dict(os.environ)
    env["PYTHONHASHSEED"] = str(hashseed)
    p = subprocess.run([PY, "-m", "vf.c12_gen", json.dumps(case)], capture_output=True, text=True, env=env, timeout=300,
                       cwd=os.environ.get("VF_SCRATCH", "/var/tmp"))
    for line in p.stdout.splitlines():
        if line.startswith("C12GEN"):
            return json.loads(line[6:]), None
    return None, (p.stderr or p.stdout)[-600:]


def classify(a, b):
    """Name the mechanism of a difference between two generated texts."""
    la, lb = a.splitlines(), b.splitlines()
    diff = [ln for ln in difflib.unified_diff(la, lb, lineterm="", n=0) if ln[:1] in "+-" and not ln.startswith(("+++", "---"))]
    minus = [ln[1:] for ln in diff if ln[0] == "-"]
    plus = [ln[1:] for ln in diff if ln[0] == "+"]
    witness = "\n".join(diff[:12])
    if len(la) == len(lb):
        changed = [(x, y) for x, y in zip(la, lb) if x != y]
        # only '// Inputs:' / '// Outputs:' comment lines, same multiset of names
        def names(s):
            return sorted(t.strip() for t in s.split(":", 1)[1].split(",")) if ":" in s else None
        if changed and all(re.match(r"\s*// (Inputs|Outputs):", x) and re.match(r"\s*// (Inputs|Outputs):", y) and names(x) == names(y) for x, y in changed):
            return "section-comment-set-order", witness
        # only the number inside J<k>_ identifiers differs
        norm = lambda s: re.sub(r"\bJ\d+_", "J#_", s)  # noqa: E731
        if changed and all(norm(x) == norm(y) for x, y in changed):
            return "jacobian-name-uses-mesh-id", witness
        norm2 = lambda s: norm(re.sub(r"(// (Inputs|Outputs):).*", r"\1", s))  # noqa: E731
        if changed and all(norm2(x) == norm2(y) for x, y in changed):
            return "jacobian-name+comment-order", witness
    if sorted(minus) == sorted(plus):
        return "statement-order", witness
    return "text-differs", witness


def run_case(case):
    res = {"evaluations": 0, "counters": {}, "cover": {}, "nontrivial": [], "violations": []}
    cnt = res["counters"]

    def count(k, n=1):
        cnt[k] = cnt.get(k, 0) + n

    base_case = {"recipe": case["recipe"], "options": case.get("options", {}), "history": "none"}
    base, err = gen(base_case, 0)
    if base is None:
        return {"verdict": INCONCLUSIVE, "why": "baseline generation failed: " + (err or "")[-200:]}
    res["evaluations"] += 1
    variants = case["variants"]  # list of (hashseed, history)
    for hs, hist in variants:
        c = dict(base_case, history=hist, other_recipes=case.get("other_recipes", []), k=case.get("k", 5))
        out, err = gen(c, hs)
        res["evaluations"] += 1
        count("generations")
        if out is None:
            count("generation_failed")
            res.setdefault("gen_errors", []).append((hs, hist, (err or "")[-200:]))
            continue
        if out.get("second_differs"):
            res["violations"].append({"mechanism": "second-compile-differs", "what": f"{case['recipe']}: compiling the same objects twice in one process gave different text",
                                      "replay": {"case": case}})
        same = out["sha"] == base["sha"]
        count("compared")
        if same:
            count("identical")
            res["nontrivial"].append(case_hash([case["recipe"], case.get("options"), hs if hs != "random" else "r", hist]))
        else:
            for fa, fb in zip(base["files"], out["files"]):
                if fa != fb:
                    mech, wit = classify(fa, fb)
                    res["violations"].append({
                        "mechanism": mech,
                        "what": f"{case['recipe']} options={case.get('options')}: generated text differs from baseline (PYTHONHASHSEED=0, no history) under PYTHONHASHSEED={hs}, history={hist}: {mech}",
                        "replay": {"case": case, "variant": [hs, hist], "diff": wit},
                    })
                    break
    res["cover"]["histories"] = sorted({h for _, h in variants})
    res["cover"]["hashseeds"] = sorted({str(h) for h, _ in variants})
    res["cover"]["language"] = [case.get("options", {}).get("language", "C")]
    res["cover"]["builder"] = [case["recipe"]["b"]]
    res["sample"] = {"recipe": case["recipe"], "options": case.get("options"), "baseline_sha256": base["sha"], "variants": variants[:4],
                     "bytes": [len(f) for f in base["files"]]}
    if res["violations"]:
        res["verdict"] = VIOLATED
    elif cnt.get("identical", 0) == 0:
        res["verdict"] = INCONCLUSIVE
        res["why"] = "no variant generated: " + str(res.get("gen_errors", ""))[:200]
    else:
        res["verdict"] = HELD
    return res


def cases_for(tier, s):
    import random

    from vf.checks import c01, c02, c04

    rnd = random.Random(s)
    pool = [c["recipe"] for c in (c01.curated(tier)[::4] + c02.curated(tier)[::3] + c04.cases_for("quick", s)[::9])]
    pool += [c["recipe"] for c in c01.randoms(6, s) + c02.randoms(6, s)]
    pool.append({"b": "all_types", "cell": "triangle"})
    pool.append({"b": "dispatch", "cell": "tetrahedron", "p": {"seed": [s, 12, 1], "nint": 6, "nforms": 2}})
    pool.append({"b": "packing", "cell": "triangle", "p": {"seed": [s, 12, 2], "ncoef": 6, "nconst": 3}})
    pool.append({"b": "expr_suite", "cell": "triangle", "cdeg": 2, "p": {"which": "rank1_vector"}})
    for w_ in range(3):
        pool.insert(2 + 3 * w_, {"b": "expr_two_meshes", "cell": ["triangle", "tetrahedron", "quadrilateral"][w_], "p": {"which": w_}})
    if tier == "quick":
        pool = pool[:26]
    others = [{"b": "stiff_nl", "cell": "tetrahedron"}, {"b": "dg_jump", "cell": "triangle"}]
    R = []
    for i, r in enumerate(pool):
        seeds = [1, 2, 3, "random"] if tier == "thorough" else [1 + i % 3, "random"]
        variants = [(h, "none") for h in seeds] + [(0, "objs"), (0, "compiled_before"), (0, "twice"), (2, "objs_compiled"), (0, "built_early")]
        if tier == "quick":
            variants = variants[:2] + [variants[2 + i % 2], variants[4 + i % 2], variants[6 + (i % 2) * 0], variants[-1]][: 4]
        variants = variants + [(1 + i % 2, "hostile")]
        for lang in (("C", "numba") if (tier == "thorough" or i % 4 == 0) else ("C",)):
            opts = {} if lang == "C" else {"language": "numba"}
            if i % 5 == 3:
                opts["scalar_type"] = "complex128" if r["b"] in ("mass", "stiff_nl", "stokes", "dg_jump") else "float32"
            R.append({"recipe": r, "options": opts, "variants": variants, "other_recipes": others, "k": 3 + i % 5})
    return R


def main(tier, replay=None):
    s = seed()
    run = Run(
        PID, tier, "exploration",
        "cases = recipes from the C01/C02/C04 corpora (all integral types, mixed elements, several forms per module, expressions) x backend (C, numba); "
        "each is generated in fresh processes under PYTHONHASHSEED in {0,1,2,3,random} and histories {none, unrelated UFL objects created first, other forms "
        "compiled first, compiled twice, objects built before unrelated work} and byte-compared with the baseline; distinct non-trivial = (recipe, options, hash seed, "
        "history) generations that were compared identical",
        ["byte comparison of ffcx.compiler.compile_ufl_objects output with a fixed namespace", "the recipe builder is deterministic given the recipe (seeded)"],
    )
    cases = cases_for(tier, s)
    if replay:
        cases = [json.load(open(replay))["replay"]["case"]]
    results = run_pool("c12", cases, per_case_timeout=600, chunk=2, deadline=time.time() + wall_budget(tier, 420, 2400))
    for r in results:
        run.add(r)
    run.require("compared", 60 if not replay else 1)
    return run.finish()


if __name__ == "__main__":
    main_wrapper(main)
