"""C08 — kernels stay inside the extents the UFCx contract gives them.

E-san: the generated C (real ffcx code generator) is linked with a generic driver and run under
clang ASan+UBSan with every buffer malloc'ed at EXACTLY the contract extent (computed from the UFL
form by the harness), NULL for pointers the contract says are unused, for ALL valid entity indices
and permutation codes; a second build places every buffer flush against a PROT_NONE guard page
(catches overruns beyond ASan's red zone up to a page, and any write to an input).
"""

from __future__ import annotations

import itertools
import os
import shutil
import time

import numpy as np

import vf.repoenv  # noqa: F401
from vf.common import wall_budget, HELD, INCONCLUSIVE, VIOLATED, Run, case_hash, main_wrapper, run_pool, seed

PID = "C08"
CELLS = ["interval", "triangle", "quadrilateral", "tetrahedron", "hexahedron"]


def form_records(b, header, source, options, rng, max_pairs=16, perm_mode="all", guard=False):
    """Call records for every kernel of every form of the module, with contract extents."""
    from vf import execs as E
    from vf import harness as H
    from vf import oracle as O

    scalar = options.get("scalar_type", "float64")
    dt, rdt, _, _ = H.SCALARS[scalar]
    cmode = "complex" in scalar
    syms = E.object_symbols(header)
    tables = H.parse_form_tables(source)
    flags = H.parse_integral_flags(source)
    recs, meta = [], []
    for oi, ((kind, sym), uf) in enumerate(zip(syms, b.forms)):
        orc = O.FormOracle(uf, complex_mode=cmode, diagonal=options.get("part") == "diagonal")
        offs, ids = tables[sym]
        for t, itype in enumerate(H.ITYPES):
            for k in range(offs[t], offs[t + 1]):
                ext = H.contract_extents(orc, itype)
                interior = itype == "interior_facet"
                fl = flags.get(sym, [])
                # one permutation code is part of the call for ridge kernels (as in the repository's test_ridge_integral, also on
                # a single mesh) and for exterior-facet kernels whose descriptor sets needs_facet_permutations (mixed-dimensional)
                one_perm = itype == "ridge" or (itype == "exterior_facet" and k < len(fl) and bool(fl[k]))
                if one_perm:
                    ext = dict(ext, perm=1)
                data = H.make_data(rng, orc.coord_element, orc.original_coefficients, orc.constants, interior, cmode, "affine")
                pos = [orc.original_coefficients.index(c) for c in orc.reduced_coefficients]
                w, _ = H.pack_w(orc.original_coefficients, pos, data, interior, dt)
                c = H.pack_c(orc.constants, data, dt)
                x = H.pack_x(data, interior, rdt)
                assert w.size == ext["w"] and c.size == ext["c"] and x.size == ext["x"], (w.size, c.size, x.size, ext)
                edim, nent = orc.entity_info(itype)
                if itype == "cell":
                    combos = [((0, 0), (0, 0))]
                elif interior:
                    pairs = list(itertools.product(range(nent), repeat=2))
                    if len(pairs) > max_pairs:
                        idx = rng.permutation(len(pairs))[:max_pairs]
                        pairs = [pairs[i] for i in sorted(idx)]
                    combos = []
                    for p in pairs:
                        n0, n1 = H.facet_perm_count(orc.cellname, p[0]), H.facet_perm_count(orc.cellname, p[1])
                        pp = list(itertools.product(range(n0), range(n1)))
                        if perm_mode != "all" and len(pp) > 4:
                            idx = rng.permutation(len(pp))[:4]
                            pp = [pp[i] for i in sorted(idx)]
                        combos += [(p, q) for q in pp]
                elif one_perm and itype == "exterior_facet":
                    combos = [((e, 0), (q, 0)) for e in range(nent) for q in range(H.facet_perm_count(orc.cellname, e))]
                    if perm_mode != "all" and len(combos) > 3 * nent:
                        idx = rng.permutation(len(combos))[: 3 * nent]
                        combos = [combos[i] for i in sorted(idx)]
                elif one_perm:
                    combos = [((e, 0), (q, 0)) for e in range(nent) for q in ((0, 1) if O.tdim_of(orc.cellname) == 3 else (0,))]
                else:
                    combos = [((e, 0), (0, 0)) for e in range(nent)]
                for ents, perms in combos:
                    recs.append({
                        "obj": oi, "k": k, "scalar": scalar, "A0": np.zeros(ext["A"], dtype=dt), "w": w, "c": c, "x": x,
                        "ent": None if itype == "cell" else list(ents if interior else ents[:1]),
                        "perm": list(perms) if interior else ([perms[0]] if one_perm else None), "guard": guard,
                    })
                    meta.append((oi, itype, ids[k] if k < len(ids) else None, k, ents, perms, ext))
    return recs, meta


def expr_records(b, header, options, rng, guard=False):
    import ufl

    from vf import execs as E
    from vf import harness as H
    from vf import oracle as O

    scalar = options.get("scalar_type", "float64")
    dt, rdt, _, _ = H.SCALARS[scalar]
    cmode = "complex" in scalar
    syms = E.object_symbols(header)
    recs, meta = [], []
    for oi, ((kind, sym), (expr, pts)) in enumerate(zip(syms, b.expressions)):
        orc = O.ExpressionOracle(expr, pts, complex_mode=cmode)
        if orc.domain is None:
            continue
        cellname = orc.domain.ufl_cell().cellname
        td = O.tdim_of(cellname)
        cel = orc.domain.ufl_coordinate_element()
        # surviving coefficients of an expression: those of the expression itself
        data = H.make_data(rng, cel, orc.coefficients, orc.constants, False, cmode, "affine")
        w, _ = H.pack_w(orc.coefficients, list(range(len(orc.coefficients))), data, False, dt)
        c = H.pack_c(orc.constants, data, dt)
        x = H.pack_x(data, False, rdt)
        sh = tuple(expr.ufl_shape)
        ncomp = int(np.prod(sh)) if sh else 1
        nd = orc.arguments[0].ufl_function_space().ufl_element().dim if orc.arguments else 1
        nA = np.asarray(pts).shape[0] * ncomp * nd
        facet = np.asarray(pts).shape[1] == td - 1
        nent = O.num_entities(cellname, td - 1) if facet else 1
        for ent in range(nent):
            for pc in range(H.facet_perm_count(cellname, ent) if facet else 1):
                recs.append({"obj": oi, "k": 0, "scalar": scalar, "A0": np.zeros(nA, dtype=dt), "w": w, "c": c, "x": x,
                             "ent": [ent] if facet else None, "perm": [pc] if facet else None, "guard": guard})
                meta.append((oi, "expression", None, 0, (ent, 0), (pc, 0), {"A": nA, "w": w.size, "c": c.size, "x": x.size}))
    return recs, meta


def ast_part(cap, b, header, source, options, recs, meta, outs, res, count, case):
    """E-ast: interpret the captured AST of each kernel on the same records with per-dimension bounds checks on every access
    (tables, temporaries, arguments at contract extents; NULL entity/permutation pointers); compare with the compiled result."""
    from vf import astkernel as AK
    from vf import execs as E
    from vf import harness as H

    scalar = options.get("scalar_type", "float64")
    cmode = "complex" in scalar
    by_name = {k["name"]: k for k in cap.kernels}
    syms = E.object_symbols(header)
    names = AK.form_integral_names(source)
    budget = case.get("ast_calls", 6)
    done = 0
    for r, m, o in zip(recs, meta, outs):
        if done >= budget:
            break
        oi, itype, sid, k, ents, perms, ext = m
        if itype == "expression":
            kn = syms[oi][1]
        else:
            lst = names.get(syms[oi][1], [])
            if k >= len(lst):
                continue
            kn = lst[k]
        kern = by_name.get(kn)
        if kern is None:
            count("ast_kernel_not_captured")
            continue
        try:
            A, st = AK.run_kernel_ast(kern["ast"], np.asarray(r["A0"]), np.asarray(r["w"]), np.asarray(r["c"]), np.ravel(np.asarray(r["x"], dtype=float)),
                                      r.get("ent"), r.get("perm"), cmode, max_steps=case.get("ast_steps", 400000))
        except AK.Unsupported as e:
            count("ast_unsupported")
            res.setdefault("ast_unsup", str(e)[:60])
            continue
        except AK.AstError as e:
            res["violations"].append({"mechanism": "out-of-extent-access", "what": f"{case['recipe']} E-ast: {e} in kernel {kn} ({itype}/{sid}, entities {ents}, perms {perms}) with contract extents {ext}",
                                      "replay": {"case": case}})
            continue
        done += 1
        count("ast_kernels_interpreted")
        count("ast_array_accesses_checked", st["accesses"])
        if o:
            ref = o[0].astype(complex)
            scale = max(float(np.max(np.abs(ref))), 1e-300)
            err = float(np.max(np.abs(A.astype(complex) - ref))) / scale
            count("ast_vs_compiled_checks")
            if err > 5e4 * H.EPS[scalar]:
                res["violations"].append({"mechanism": "interpreted-ast-differs-from-compiled-kernel",
                                          "what": f"{case['recipe']} kernel {kn}: AST interpreter and compiled C differ by {err:.3e} (formatter or interpreter disagreement)", "replay": {"case": case}})
            else:
                count("ast_vs_compiled_ok")


def run_case(case):
    from vf import corpus
    from vf import execs as E
    from vf import harness as H

    recipe = case["recipe"]
    options = dict(case.get("options") or {})
    rng = np.random.default_rng(case.get("seed", [0]))
    res = {"evaluations": 0, "counters": {}, "cover": {}, "nontrivial": [], "violations": []}
    cnt = res["counters"]

    def count(k, n=1):
        cnt[k] = cnt.get(k, 0) + n

    from vf import astkernel as AK

    b = corpus.build(recipe)
    objs = b.forms or b.expressions
    cap = AK.Capture()
    try:
        with cap:
            header, source = E.generate_source(objs, options)
    except Exception as e:
        return {"verdict": INCONCLUSIVE, "why": f"ffcx did not generate code: {type(e).__name__}: {str(e)[:160]}"}
    wd = H.scratch_dir("san")
    try:
        variants = case.get("variants", ["asan", "guard"])
        for variant in variants:
            drv = E.Driver(os.path.join(wd, variant), header, source, variant="asan" if variant == "asan" else "guard")
            if drv.build_rc != 0:
                return {"verdict": INCONCLUSIVE, "why": f"{variant} driver build failed (C19 territory)", "log": drv.build_log[-1500:]}
            count("builds_" + variant)
            guard = variant == "guard"
            if b.forms:
                recs, meta = form_records(b, header, source, options, rng, case.get("max_pairs", 16), case.get("perm_mode", "all"), guard)
            else:
                recs, meta = expr_records(b, header, options, rng, guard)
            if not recs:
                continue
            rc, err, outs = drv.run(recs, timeout=600)
            res["evaluations"] += len(recs)
            count("calls_" + variant, len(recs))
            if rc is None:
                count("driver_timeouts")
                continue
            if rc != 0 or "VF_DRIVER_OK" not in err:
                # find the first failing record by running them one at a time
                first = None
                for i, r in enumerate(recs):
                    rc1, err1, _ = drv.run([r], timeout=120, tag="one")
                    if rc1 != 0 or "VF_DRIVER_OK" not in (err1 or ""):
                        first = (i, rc1, err1)
                        break
                i, rc1, err1 = first if first else (None, rc, err)
                kind = E.classify_sanitizer_report(err1 or "") or (f"signal/exit {rc1}" if rc1 not in (0, None) else "driver failed")
                m = meta[i] if i is not None else None
                res["violations"].append({
                    "mechanism": "out-of-extent-access",
                    "what": f"{recipe} {variant} run: {kind} in kernel call {m[:6] if m else '?'} with contract extents {m[6] if m else '?'}",
                    "replay": {"case": case, "report": (err1 or "")[-3000:]},
                })
                continue
            count("clean_runs_" + variant)
            if variant == "asan" and case.get("ast", False):
                ast_part(cap, b, header, source, options, recs, meta, outs, res, count, case)
            for m in meta:
                res["nontrivial"].append(case_hash([recipe, variant, m[1], m[2], m[3], m[4], m[5], options]))
            # the kernel must have produced something (not a vacuous run)
            nz = sum(1 for o in outs if o and np.any(o[0] != 0))
            count("outputs_nonzero", nz)
            if "sample" not in res:
                m = meta[0]
                res["sample"] = {"recipe": recipe, "variant": variant, "kernel": [m[1], m[2], m[3]], "entities": list(m[4]), "perms": list(m[5]),
                                 "contract_extents": m[6], "calls_in_case": len(recs), "sanitizer_reports": 0}
            res["cover"].setdefault("itypes", [])
            res["cover"]["itypes"] = sorted(set(res["cover"]["itypes"]) | {m[1] for m in meta})
    finally:
        shutil.rmtree(wd, ignore_errors=True)
    res["cover"]["cell"] = [str(recipe.get("cell"))]
    res["cover"]["builder"] = [recipe["b"]]
    if res["violations"]:
        res["verdict"] = VIOLATED
    elif cnt.get("clean_runs_asan", 0) + cnt.get("clean_runs_guard", 0) == 0:
        res["verdict"] = INCONCLUSIVE
        res["why"] = "no sanitizer execution completed"
    else:
        res["verdict"] = HELD
    return res


def cases_for(tier, s):
    from vf.checks import c01, c02, c04

    R = []
    cur = c01.curated(tier) + c02.curated(tier)
    if tier == "quick":
        cur = cur[::3]
    R += cur
    R += c01.randoms(12 if tier == "quick" else 300, s) + c02.randoms(18 if tier == "quick" else 450, s)
    ex = c04.cases_for(tier, s)
    R += ex[::4] if tier == "quick" else ex
    # geometric quantities read coordinate_dofs directly (vertex / edge tables): every restriction, always in the pool
    for cell in ("triangle", "tetrahedron", "hexahedron"):
        for side in ("-", "mix"):
            R.append({"recipe": {"b": "geom_all", "cell": cell, "p": {"itype": "interior_facet", "side": side}}})
    # rank-3 tensor shapes with unequal extents: every flat component index of c, w and A
    for shape, cell, it in (((2, 3, 2), "triangle", "cell"), ((3, 2, 1), "interval", "cell"), ((2, 3, 2), "triangle", "interior_facet"), ((1, 3, 2), "tetrahedron", "exterior_facet")):
        R.append({"recipe": {"b": "tensor3", "cell": cell, "p": {"shape": list(shape), "itype": it}}})
    # options that change the loop structure
    for cell in ("quadrilateral", "hexahedron"):
        R.append({"recipe": {"b": "tp_mass_stiff", "cell": cell, "tpmesh": True, "p": {"degree": 2 if cell == "quadrilateral" else 1}}, "options": {"sum_factorization": True}})
        R.append({"recipe": {"b": "tp_mass_stiff", "cell": cell, "tpmesh": True, "p": {"degree": 1, "blocked": True}}, "options": {"sum_factorization": True}})
    for cell in ("triangle", "tetrahedron"):
        R.append({"recipe": {"b": "vector_elasticity", "cell": cell}, "options": {"part": "diagonal"}})
        R.append({"recipe": {"b": "mass", "cell": cell, "p": {"degree": 2}}, "options": {"part": "diagonal"}})
    out = []
    for i, c in enumerate(R):
        c = {k: v for k, v in c.items() if k in ("recipe", "options")}
        c["seed"] = [s, 800, i]
        c["ast"] = (i % 4 == 0) if tier == "quick" else True
        c["ast_calls"] = 2 if tier == "quick" else 12
        c["ast_steps"] = 60000 if tier == "quick" else 600000
        if tier == "quick":
            c["max_pairs"] = 9
            c["perm_mode"] = "some"
        out.append(c)
    return out


def main(tier, replay=None):
    s = seed()
    run = Run(
        PID, tier, "exploration",
        "cases = cell/facet/vertex forms and expressions of the C01/C02/C04 corpora (curated + seeded random) plus sum-factorised and "
        "diagonal kernels; each module is generated by the real ffcx code generator, linked with a generic driver, and every kernel is "
        "called for ALL valid entity indices (sampled (f+,f-) pairs beyond the cap) and permutation codes with buffers of exactly the "
        "contract extents (A, w, c, 3 x nodes, doubled for interior facets; NULL entity/permutation for cell kernels, NULL permutation outside "
        "interior facets) under clang ASan+UBSan and again with each buffer flush against a PROT_NONE guard page and inputs read-only; for a third of the "
        "cases (all in thorough) the captured LNodes AST of the kernel is additionally executed by the bounds-checked interpreter (every ArrayAccess checked per dimension, "
        "uninitialised reads flagged, NULL pointers = zero-extent arrays) and its result compared with the compiled kernel; "
        "distinct non-trivial = (recipe, variant, kernel, entity, perm) executed to completion with zero reports",
        ["contract extents are computed from the UFL form by the harness (ufcx.h documentation), not from ffcx",
         "ASan red zones miss non-adjacent overruns: the guard-page build extends reach to one page; the E-ast interpreter checks every access per dimension for the kernels small enough to interpret",
         "clang 14 ASan+UBSan, gcc -O2 for the guard build"],
    )
    cases = cases_for(tier, s)
    if replay:
        import json

        cases = [json.load(open(replay))["replay"]["case"]]
    results = run_pool("c08", cases, per_case_timeout=400, chunk=2, deadline=time.time() + wall_budget(tier, 480, 3000))
    for r in results:
        run.add(r)
    run.require("clean_runs_asan", 30 if not replay else 1)
    run.require("ast_kernels_interpreted", 10 if not replay else 0)
    run.require("outputs_nonzero", 100 if not replay else 1)
    return run.finish()


if __name__ == "__main__":
    main_wrapper(main)
