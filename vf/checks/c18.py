"""C18 — the numba backend computes the same tensors as the C backend.

E-numba (quick): the module generated with language='numba' is compiled with compile() (must be valid Python), executed as plain
Python with a stub `numba.carray` that returns index-checking views of exactly the size the module declares (a declared size
larger than the contract extent, or any index outside it, is an error), and every kernel is called on the same buffers as the C
kernel (JIT) and compared with it and with the oracle; all descriptor metadata are compared field by field with the C descriptor.
Thorough: a sample is also compiled with the real numba.cfunc under NUMBA_BOUNDSCHECK=1.
"""

from __future__ import annotations

import json
import time
import types

import numpy as np

import vf.repoenv  # noqa: F401
from vf.common import wall_budget, HELD, INCONCLUSIVE, VIOLATED, Run, case_hash, main_wrapper, run_pool, seed

PID = "C18"


class CheckedArray:
    """1-d view with strict bounds checking (no negative wrap-around), as numba.carray(ptr, n) would expose."""

    def __init__(self, base, n, name):
        self.base, self.n, self.name = base, int(n), name

    def _chk(self, i):
        if isinstance(i, tuple):
            if len(i) != 1:
                raise IndexError(f"{self.name}: {len(i)}-d index into 1-d carray")
            i = i[0]
        i = int(i)
        if i < 0 or i >= self.n:
            raise IndexError(f"{self.name}[{i}] outside declared carray size {self.n}")
        if i >= self.base.size:
            raise IndexError(f"{self.name}[{i}] outside the buffer the caller provides ({self.base.size} elements)")
        return i

    def __getitem__(self, i):
        return self.base[self._chk(i)]

    def __setitem__(self, i, v):
        self.base[self._chk(i)] = v


class StubNumba(types.ModuleType):
    def __init__(self):
        super().__init__("numba")
        self.declared = []

    def carray(self, ptr, shape, dtype=None):
        n = int(np.prod(shape)) if not isinstance(shape, (int, np.integer)) else int(shape)
        name = "buf%d" % (len(self.declared) % 6)
        self.declared.append(n)
        if ptr is None:
            return CheckedArray(np.zeros(0), 0 if n == 0 else n, name + "(NULL)")
        return CheckedArray(ptr, n, name)


def load_numba_module(text):
    code = compile(text, "<ffcx numba module>", "exec")
    stub = StubNumba()
    import sys

    saved = sys.modules.get("numba")
    sys.modules["numba"] = stub
    try:
        ns = {"__name__": "ffcx_numba_generated"}
        exec(code, ns)
    finally:
        if saved is not None:
            sys.modules["numba"] = saved
        else:
            sys.modules.pop("numba", None)
    ns["numba"] = stub
    return ns, stub


def cfunc_part(case, text, b, comp, options, res, count, viol):
    """Thorough: compile the generated module with the REAL numba (numba.cfunc, nopython, NUMBA_BOUNDSCHECK=1) and compare each
    compiled kernel with the C kernel on identical buffers (float32/float64 only: ctypes has no complex)."""
    import ctypes
    import os

    os.environ["NUMBA_BOUNDSCHECK"] = "1"
    import numba

    from ffcx.codegeneration.utils import numba_ufcx_kernel_signature
    from vf import harness as H
    from vf import oracle as O
    from vf.valuecheck import facet_kernel_matches_entity

    scalar = options.get("scalar_type", "float64")
    if "complex" in scalar or not b.forms:
        return
    dt, rdt, _, _ = H.SCALARS[scalar]
    ns = {"__name__": "ffcx_numba_real"}
    exec(compile(text, "<ffcx numba module>", "exec"), ns)
    sig = numba_ufcx_kernel_signature(dt, rdt)

    def ptr(a):
        return a.ctypes.data_as(ctypes.POINTER(np.ctypeslib.as_ctypes_type(a.dtype)))

    rng = np.random.default_rng(case["seed"])
    ffi = comp.ffi
    budget = case.get("cfunc_kernels", 3)
    for fi, (uf, cf) in enumerate(zip(b.forms, comp.objs)):
        nf = ns.get(f"form_nb_{fi}")
        desc = H.read_form(ffi, cf)
        orc = O.FormOracle(uf)
        for (itype, sid, k, itg), nitg in zip(H.integral_entries(ffi, cf, desc), list(nf.form_integrals or [])):
            if budget <= 0:
                return
            budget -= 1
            try:
                kern = numba.cfunc(sig, nopython=True)(nitg.tabulate_tensor)
            except Exception as e:
                viol("numba-cfunc-compilation-fails", f"{itype}/{sid}: numba cannot compile the generated kernel: {type(e).__name__}: {str(e)[:200]}")
                continue
            count("cfunc_compiled")
            interior = itype == "interior_facet"
            data = H.make_data(rng, orc.coord_element, orc.original_coefficients, orc.constants, interior, False, "affine")
            w, _ = H.pack_w(orc.original_coefficients, desc["original_coefficient_positions"], data, interior, dt)
            c = H.pack_c(orc.constants, data, dt)
            x = np.ravel(H.pack_x(data, interior, rdt))
            shape = orc.tensor_shape(itype) or (1,)
            edim, nent = orc.entity_info(itype)
            ents = (0, min(1, nent - 1))
            if itype in ("exterior_facet", "interior_facet") and not facet_kernel_matches_entity(orc.cellname, itype, int(itg.domain), ents[0]):
                continue
            if interior and O.facet_celltype(orc.cellname, ents[0]) != O.facet_celltype(orc.cellname, ents[1]):
                ents = (0, 0)
            ent = np.array(ents if interior else ents[:1], dtype=np.intc)
            perm = np.array([1, 0] if (interior and O.tdim_of(orc.cellname) > 1) else [0, 0], dtype=np.uint8)
            A_c = np.zeros(shape, dtype=dt)
            H.call_kernel(ffi, itg, scalar, A_c, w, c, x.reshape(-1, 3), None if itype == "cell" else ent, perm[: 2 if interior else 1] if itype != "cell" else None)
            A_n = np.zeros(int(np.prod(shape)), dtype=dt)
            wz = w if w.size else np.zeros(1, dtype=dt)
            cz = c if c.size else np.zeros(1, dtype=dt)
            kern.ctypes(ptr(A_n), ptr(wz), ptr(cz), ptr(x), ptr(ent), ptr(perm), None)
            err = float(np.max(np.abs(A_n.reshape(shape).astype(float) - A_c.astype(float)))) / max(float(np.max(np.abs(A_c))), 1e-300)
            if err > 5e4 * H.EPS[scalar]:
                viol("numba-compiled-kernel-differs-from-C", f"{itype}/{sid}: numba.cfunc result differs from the C kernel by {err:.3e}")
            else:
                count("cfunc_kernels_equal")
                res["nontrivial"].append(case_hash([case["recipe"], options, fi, itype, sid, "cfunc"]))


def run_case(case):
    import ffcx.compiler
    import ffcx.options

    from vf import corpus
    from vf import harness as H
    from vf import oracle as O
    from vf.valuecheck import _cast_data, facet_kernel_matches_entity

    recipe = case["recipe"]
    options = dict(case.get("options") or {})
    scalar = options.get("scalar_type", "float64")
    dt, rdt, _, _ = H.SCALARS[scalar]
    cmode = "complex" in scalar
    wide = np.complex128 if cmode else np.float64
    rng = np.random.default_rng(case["seed"])
    res = {"evaluations": 0, "counters": {}, "cover": {}, "nontrivial": [], "violations": []}
    cnt = res["counters"]

    def count(k, n=1):
        cnt[k] = cnt.get(k, 0) + n

    def viol(mech, what, extra=None):
        if sum(1 for v in res["violations"] if v["mechanism"] == mech) < 5:
            res["violations"].append({"mechanism": mech, "what": f"{recipe}: {what}", "replay": {"case": case, "extra": extra}})

    b = corpus.build(recipe)
    objs = b.forms or b.expressions
    # ---- C side (accepted?)
    try:
        comp = H.jit_forms(b.forms, options) if b.forms else H.jit_expressions(b.expressions, options)
    except Exception as e:
        return {"verdict": INCONCLUSIVE, "why": f"C backend did not accept: {type(e).__name__}: {str(e)[:120]}"}
    # ---- numba side
    try:
        nopts = ffcx.options.get_options(dict(options, language="numba"))
        code, suffixes = ffcx.compiler.compile_ufl_objects(list(objs), options=nopts, namespace="nb")
        text = code[0]
    except Exception as e:
        res["violations"].append({"mechanism": "numba-generation-fails", "what": f"{recipe}: accepted by the C backend but numba generation raises {type(e).__name__}: {str(e)[:160]}", "replay": {"case": case}})
        res["verdict"] = VIOLATED
        return res
    count("modules_generated")
    try:
        ns, stub = load_numba_module(text)
    except SyntaxError as e:
        viol("numba-module-not-valid-python", f"SyntaxError: {e.msg} at line {e.lineno}: {(e.text or '').strip()[:80]}")
        res["verdict"] = VIOLATED
        return res
    except Exception as e:
        viol("numba-module-fails-on-import", f"{type(e).__name__}: {str(e)[:160]}")
        res["verdict"] = VIOLATED
        return res
    count("modules_valid_python")
    ffi = comp.ffi
    sample = None
    if b.forms:
        for fi, (uf, cf) in enumerate(zip(b.forms, comp.objs)):
            nf = ns.get(f"form_nb_{fi}")
            if nf is None:
                viol("numba-alias-missing", f"no object form_nb_{fi} in the generated module")
                continue
            desc = H.read_form(ffi, cf)
            # ---- descriptor comparison
            def lst(x):
                return [] if x is None else list(x)
            pairs = [("rank", desc["rank"], nf.rank), ("num_coefficients", desc["num_coefficients"], nf.num_coefficients),
                     ("original_coefficient_positions", desc["original_coefficient_positions"], lst(nf.original_coefficient_positions)),
                     ("coefficient_names", desc["coefficient_names"], lst(nf.coefficient_name_map)), ("num_constants", desc["num_constants"], nf.num_constants),
                     ("constant_ranks", desc["constant_ranks"], lst(nf.constant_ranks)),
                     ("constant_shapes", desc["constant_shapes"], [lst(x) for x in lst(nf.constant_shapes)]),
                     ("constant_names", desc["constant_names"], lst(nf.constant_name_map)),
                     ("finite_element_hashes", desc["finite_element_hashes"], [int(h) for h in lst(nf.finite_element_hashes)][: len(desc["finite_element_hashes"])]),
                     ("form_integral_offsets", desc["offsets"], lst(nf.form_integral_offsets)), ("form_integral_ids", desc["ids"], lst(nf.form_integral_ids)),
                     ("signature", desc["signature"], nf.signature)]
            for name, cval, nval in pairs:
                count("descriptor_fields_compared")
                if cval != nval:
                    viol("descriptor-field-differs:" + name, f"form {fi}: {name}: C {str(cval)[:80]} vs numba {str(nval)[:80]}")
            entries = H.integral_entries(ffi, cf, desc)
            nints = lst(nf.form_integrals)
            if len(nints) != len(entries):
                viol("descriptor-field-differs:form_integrals", f"{len(entries)} C integrals vs {len(nints)} numba integrals")
                continue
            orc = O.FormOracle(uf, complex_mode=cmode, diagonal=options.get("part") == "diagonal", sum_factorization=bool(options.get("sum_factorization")))
            for (itype, sid, k, itg), nitg in zip(entries, nints):
                idesc = H.read_integral(ffi, itg, desc["num_coefficients"])
                for name, cval, nval in (("enabled_coefficients", idesc["enabled_coefficients"], [bool(x) for x in nitg.enabled_coefficients]),
                                         ("needs_facet_permutations", idesc["needs_facet_permutations"], bool(nitg.needs_facet_permutations)),
                                         ("coordinate_element_hash", idesc["coordinate_element_hash"], int(nitg.coordinate_element_hash)), ("domain", idesc["domain"], int(nitg.domain))):
                    count("descriptor_fields_compared")
                    if cval != nval:
                        viol("descriptor-field-differs:" + name, f"integral {itype}/{sid}: {name}: C {cval} vs numba {nval}")
                interior = itype == "interior_facet"
                data = H.make_data(rng, orc.coord_element, orc.original_coefficients, orc.constants, interior, cmode, "affine")
                w, _ = H.pack_w(orc.original_coefficients, desc["original_coefficient_positions"], data, interior, dt)
                c = H.pack_c(orc.constants, data, dt)
                x = H.pack_x(data, interior, rdt)
                shape = orc.tensor_shape(itype) or (1,)
                edim, nent = orc.entity_info(itype)
                combos = [(0, 0)] if itype == "cell" else [(e, (e + 1) % nent) for e in range(min(nent, 3))]
                for ents in combos:
                    if itype in ("exterior_facet", "interior_facet") and not facet_kernel_matches_entity(orc.cellname, itype, idesc["domain"], ents[0]):
                        continue
                    if interior and O.facet_celltype(orc.cellname, ents[0]) != O.facet_celltype(orc.cellname, ents[1]):
                        continue
                    perms = (0, 0)
                    if interior:
                        perms = (int(rng.integers(H.facet_perm_count(orc.cellname, ents[0]))), int(rng.integers(H.facet_perm_count(orc.cellname, ents[1]))))
                    ent = None if itype == "cell" else np.array(ents if interior else ents[:1], dtype=np.intc)
                    # ridge kernels and exterior-facet kernels with needs_facet_permutations (mixed-dimensional) take one code
                    one_perm = itype == "ridge" or (itype == "exterior_facet" and idesc["needs_facet_permutations"])
                    perm = np.array(perms, dtype=np.uint8) if interior else (np.array(perms[:1], dtype=np.uint8) if one_perm else None)
                    A_c = np.zeros(shape, dtype=dt)
                    H.call_kernel(ffi, itg, scalar, A_c, w, c, x, ent, perm)
                    A_n = np.zeros(int(np.prod(shape)), dtype=dt)
                    res["evaluations"] += 1
                    count("kernel_calls")
                    n0 = len(stub.declared)
                    try:
                        nitg.tabulate_tensor(A_n, w, c, np.ravel(x), ent, perm, None)
                    except IndexError as e:
                        viol("numba-kernel-out-of-declared-or-contract-extent", f"{itype}/{sid} entities {ents}: {e}; declared carray sizes {stub.declared[n0:n0 + 6]}; contract extents {H.contract_extents(orc, itype)}")
                        continue
                    except Exception as e:
                        if isinstance(e, NameError) and "scipy" in str(e) and "scipy.special." in text:
                            viol("numba-bessel-emits-bare-scipy-name", f"{itype}/{sid}: Bessel function printed as a bare 'scipy.special.jn/yn' (no import, no arguments): {e}")
                        else:
                            viol("numba-kernel-raises", f"{itype}/{sid}: {type(e).__name__}: {str(e)[:140]}")
                        continue
                    err = float(np.max(np.abs(A_n.reshape(shape).astype(wide) - A_c.astype(wide)))) / max(float(np.max(np.abs(A_c))), 1e-300)
                    if err > 5e4 * H.EPS[scalar]:
                        viol("numba-kernel-differs-from-C", f"{itype}/{sid} entities {ents} perms {perms}: relative difference {err:.3e}")
                    else:
                        count("kernels_equal")
                        if np.max(np.abs(A_c)) > 1e-6:
                            res["nontrivial"].append(case_hash([recipe, options, fi, itype, sid, ents]))
                            if sample is None:
                                sample = {"recipe": recipe, "kernel": [itype, sid], "entities": list(ents), "rel_diff_numba_vs_C": err, "declared_carray_sizes": stub.declared[n0:n0 + 6]}
                    try:
                        if sum(1 for (t2, s2, _k, _i) in entries if (t2, s2) == (itype, sid)) != 1:
                            raise O.Unsupported("several kernels listed under this id: the C kernel is the reference")
                        R, S, _ = orc.tensor(itype, sid, _cast_data(data, dt, rdt), ents, perms)
                        e2, bnd, st = H.compare(A_n.reshape(R.shape).astype(wide), R, S, scalar, getattr(comp, "table_delta", 0.0), ops=16, floor=1.0)
                        if st == "bad":
                            viol("numba-kernel-differs-from-oracle", f"{itype}/{sid}: err {e2:.3e}")
                        elif st == "ok":
                            count("oracle_ok")
                    except O.Unsupported:
                        pass
    else:
        for ei, ((expr, pts), ce) in enumerate(zip(b.expressions, comp.objs)):
            ne = ns.get(f"expression_nb_{ei}")
            if ne is None:
                viol("numba-alias-missing", f"no object expression_nb_{ei}")
                continue
            d = H.read_expression(ffi, ce)
            sh = tuple(expr.ufl_shape)
            cvs = [ce.value_shape[i] for i in range(d["num_components"])] if ce.value_shape != ffi.NULL else []
            cpts = [ce.points[i] for i in range(d["num_points"] * d["entity_dimension"])]
            pairs = [("num_coefficients", d["num_coefficients"], ne.num_coefficients), ("num_constants", d["num_constants"], ne.num_constants),
                     ("original_coefficient_positions", d["original_coefficient_positions"], list(ne.original_coefficient_positions)),
                     ("coefficient_names", d["coefficient_names"], list(ne.coefficient_names)), ("constant_names", d["constant_names"], list(ne.constant_names)),
                     ("num_points", d["num_points"], ne.num_points), ("entity_dimension", d["entity_dimension"], ne.entity_dimension),
                     ("points", cpts, [float(p) for p in ne.points]), ("value_shape", cvs, list(ne.value_shape)), ("num_components", d["num_components"], ne.num_components),
                     ("rank", d["rank"], ne.rank), ("coordinate_element_hash", d["coordinate_element_hash"], int(ne.coordinate_element_hash))]
            for name, cval, nval in pairs:
                count("descriptor_fields_compared")
                if cval != nval:
                    viol("descriptor-field-differs:" + name, f"expression {ei} (value shape {sh}): {name}: C {str(cval)[:80]} vs numba {str(nval)[:80]}")
            orc = O.ExpressionOracle(expr, pts, complex_mode=cmode)
            if orc.domain is None:
                continue
            cellname = orc.domain.ufl_cell().cellname
            td = O.tdim_of(cellname)
            data = H.make_data(rng, orc.domain.ufl_coordinate_element(), orc.coefficients, orc.constants, False, cmode, "affine")
            w, _ = H.pack_w(orc.coefficients, d["original_coefficient_positions"], data, False, dt)
            c = H.pack_c(orc.constants, data, dt)
            x = H.pack_x(data, False, rdt)
            ncomp = int(np.prod(sh)) if sh else 1
            nd = orc.arguments[0].ufl_function_space().ufl_element().dim if orc.arguments else 1
            facet = np.asarray(pts).shape[1] == td - 1
            ent = np.array([0], dtype=np.intc) if facet else None
            perm = np.array([0], dtype=np.uint8) if facet else None
            A_c = np.zeros((len(pts), ncomp, nd), dtype=dt)
            H.call_kernel(ffi, ce, scalar, A_c, w, c, x, ent, perm)
            A_n = np.zeros(A_c.size, dtype=dt)
            res["evaluations"] += 1
            count("kernel_calls")
            try:
                ne.tabulate_tensor(A_n, w, c, np.ravel(x), ent, perm, None)
            except IndexError as e:
                viol("numba-kernel-out-of-declared-or-contract-extent", f"expression {ei}: {e}")
                continue
            except Exception as e:
                viol("numba-kernel-raises", f"expression {ei}: {type(e).__name__}: {str(e)[:140]}")
                continue
            err = float(np.max(np.abs(A_n.reshape(A_c.shape).astype(wide) - A_c.astype(wide)))) / max(float(np.max(np.abs(A_c))), 1e-300)
            if err > 5e4 * H.EPS[scalar]:
                viol("numba-kernel-differs-from-C", f"expression {ei}: relative difference {err:.3e}")
            else:
                count("kernels_equal")
                res["nontrivial"].append(case_hash([recipe, options, ei]))
    if case.get("cfunc") and not res["violations"]:
        try:
            cfunc_part(case, text, b, comp, options, res, count, viol)
        except Exception as e:
            count("cfunc_harness_errors")
            res.setdefault("cfunc_error", f"{type(e).__name__}: {str(e)[:120]}")
    res["cover"]["builder"] = [recipe["b"]]
    res["cover"]["cell"] = [str(recipe.get("cell"))]
    res["sample"] = sample
    if res["violations"]:
        res["verdict"] = VIOLATED
    elif cnt.get("kernels_equal", 0) == 0:
        res["verdict"] = INCONCLUSIVE
        res["why"] = "no kernel compared"
    else:
        res["verdict"] = HELD
    return res


def cases_for(tier, s):
    from vf.checks import c01, c02, c04

    R = []
    pool = c01.curated(tier) + c02.curated(tier)
    if tier == "quick":
        pool = pool[::3]
    pool += c01.randoms(10 if tier == "quick" else 150, s) + c02.randoms(10 if tier == "quick" else 150, s)
    ex = c04.cases_for("quick", s)
    pool += ex[::5] if tier == "quick" else ex
    pool += [{"recipe": {"b": "all_types", "cell": "triangle"}}, {"recipe": {"b": "dispatch", "cell": "triangle", "p": {"seed": [s, 18, 1], "nint": 5, "nforms": 2}}},
             {"recipe": {"b": "packing", "cell": "triangle", "p": {"seed": [s, 18, 2]}}}, {"recipe": {"b": "facet_plain", "cell": "prism"}},
             {"recipe": {"b": "mathfuns", "cell": "triangle"}}, {"recipe": {"b": "mathfuns", "cell": "interval"}}, {"recipe": {"b": "conditionals", "cell": "quadrilateral"}},
             {"recipe": {"b": "conditionals", "cell": "triangle"}}, {"recipe": {"b": "facet_edge_lengths", "cell": "tetrahedron"}},
             {"recipe": {"b": "expr_zero", "cell": "interval"}}, {"recipe": {"b": "ridge_form", "cell": "tetrahedron", "p": {"which": 0}}}, {"recipe": {"b": "mixed_dim_codim1", "cell": "triangle", "p": {"which": 1}}},
             {"recipe": {"b": "bessel", "cell": "triangle", "p": {"kind": "J"}}}, {"recipe": {"b": "bessel", "cell": "interval", "p": {"kind": "Y", "nu": 2}}},
             {"recipe": {"b": "tp_mass_stiff", "cell": "quadrilateral", "tpmesh": True, "p": {"degree": 2}}, "options": {"sum_factorization": True}},
             {"recipe": {"b": "mass", "cell": "triangle", "p": {"degree": 2}}, "options": {"part": "diagonal"}}]
    for i, c in enumerate(pool):
        # keep plain-Python execution cheap: skip the largest 3-D elements
        r = c["recipe"]
        if r["b"] in ("hyperelastic", "stokes") and r.get("cell") in ("tetrahedron", "hexahedron"):
            continue
        R.append({"recipe": r, "options": c.get("options", {}), "seed": [s, 18, i], "cfunc": (tier == "thorough" and i % 2 == 0) or (tier == "quick" and i % 25 == 3),
                  "cfunc_kernels": 2 if tier == "quick" else 4})
    return R


def main(tier, replay=None):
    s = seed()
    run = Run(
        PID, tier, "exploration",
        "cases = forms and expressions of the C01/C02/C04 corpora (every math function, conditionals and logical operators, facets, interior facets, vertex integrals, "
        "several forms per module, prisms, sum-factorised and diagonal kernels) that the C backend accepts; the numba module must be valid Python, every kernel is executed "
        "as plain Python behind an index-checking numba.carray stub of the declared sizes on the same buffers as the C kernel and compared with it (5e4 eps) and the oracle; "
        "every descriptor field (form, integral, expression) is compared with the C descriptor; distinct non-trivial = kernels compared equal with max|A|>1e-6",
        ["plain-Python execution of the generated module stands in for numba compilation in the quick tier (numba type inference is not exercised)",
         "C backend descriptor is the reference for metadata (itself checked by C04/C06)"],
    )
    cases = cases_for(tier, s)
    if replay:
        cases = [json.load(open(replay))["replay"]["case"]]
    results = run_pool("c18", cases, per_case_timeout=500, chunk=2, deadline=time.time() + wall_budget(tier, 480, 3000))
    for r in results:
        run.add(r)
    run.require("kernels_equal", 60 if not replay else 0)
    run.require("descriptor_fields_compared", 500 if not replay else 0)
    return run.finish()


if __name__ == "__main__":
    main_wrapper(main)
