"""C05 — coefficient/constant packing contract and enabled_coefficients are truthful.

Monitors: (1) w and c are packed strictly from descriptor fields (surviving coefficients in the
order of original_coefficient_positions at cumulative element dimensions, doubled on interior
facets; constants in original order, row-major) and the kernel is compared with the oracle evaluated
on the ORIGINAL objects' values; (2) poisoning: the storage of every coefficient whose
enabled_coefficients flag is false in that integral is overwritten with NaN / Inf / 1e300 and the
output must be bitwise identical to the unpoisoned call; (3) thorough: the same slots are left
*uninitialised* in a memcheck run (definedness tracking) -- see vf/execs.py.
"""

from __future__ import annotations

import time

import numpy as np

import vf.repoenv  # noqa: F401
from vf.common import wall_budget, HELD, INCONCLUSIVE, VIOLATED, Run, case_hash, main_wrapper, run_pool, seed

PID = "C05"
CELLS = ["interval", "triangle", "quadrilateral", "tetrahedron", "hexahedron"]
POISONS = [float("nan"), float("inf"), 1e300]


def memcheck_case(case):
    """Definedness monitor: the storage of every disabled coefficient is left UNINITIALISED and the kernel runs under valgrind
    memcheck; if anything written to A (and then to the output file) depends on it, memcheck reports it."""
    import os
    import re
    import shutil

    from vf import astkernel as AK
    from vf import corpus
    from vf import execs as E
    from vf import harness as H
    from vf import oracle as O

    recipe = case["recipe"]
    rng = np.random.default_rng(case.get("seed", [0]))
    res = {"evaluations": 0, "counters": {}, "cover": {}, "nontrivial": [], "violations": []}
    cnt = res["counters"]

    def count(k, n=1):
        cnt[k] = cnt.get(k, 0) + n

    b = corpus.build(recipe)
    try:
        header, source = E.generate_source(b.forms, {})
    except Exception as e:
        return {"verdict": INCONCLUSIVE, "why": f"ffcx did not generate: {type(e).__name__}: {str(e)[:100]}"}
    wd = H.scratch_dir("mc")
    try:
        drv = E.Driver(os.path.join(wd, "plain"), header, source, variant="plain")
        if drv.build_rc != 0:
            return {"verdict": INCONCLUSIVE, "why": "driver build failed", "log": drv.build_log[-800:]}
        names = AK.form_integral_names(source)
        tables = H.parse_form_tables(source)
        en = {m.group(1): [int(v) for v in m.group(2).split(",")] for m in re.finditer(r"bool enabled_coefficients_(\w+)\[\d+\] = \{([^}]*)\};", source)}
        recs, meta = [], []
        for oi, ((kind, sym), uf) in enumerate(zip(drv.symbols, b.forms)):
            orc = O.FormOracle(uf)
            offs, ids = tables[sym]
            pos = [orc.original_coefficients.index(c) for c in orc.reduced_coefficients]
            for t, itype in enumerate(H.ITYPES):
                for k in range(offs[t], offs[t + 1]):
                    kn = names[sym][k]
                    flags = en.get(kn)
                    if not flags or all(flags):
                        continue
                    interior = itype == "interior_facet"
                    data = H.make_data(rng, orc.coord_element, orc.original_coefficients, orc.constants, interior, False, "affine")
                    w, slots = H.pack_w(orc.original_coefficients, pos, data, interior, np.float64)
                    un = [(b0, b0 + n) for (kk, s_, b0, n) in slots if not flags[kk]]
                    ext = H.contract_extents(orc, itype)
                    edim, nent = orc.entity_info(itype)
                    ents = (0, min(1, nent - 1))
                    if interior and O.facet_celltype(orc.cellname, ents[0]) != O.facet_celltype(orc.cellname, ents[1]):
                        ents = (0, 0)
                    recs.append({"obj": oi, "k": k, "scalar": "float64", "A0": np.zeros(ext["A"]), "w": w, "c": H.pack_c(orc.constants, data, np.float64), "x": H.pack_x(data, interior, np.float64),
                                 "ent": None if itype == "cell" else list(ents if interior else ents[:1]), "perm": [0, 0] if interior else None, "uninit": un})
                    meta.append((itype, ids[k], kn, flags, un))
        if not recs:
            return {"verdict": INCONCLUSIVE, "why": "no integral with a disabled coefficient"}
        rc, err, outs = drv.run(recs[: case.get("max_kernels", 6)], timeout=900, valgrind=True)
        res["evaluations"] = len(recs[: case.get("max_kernels", 6)])
        count("memcheck_kernels", res["evaluations"])
        if rc is None:
            return {"verdict": INCONCLUSIVE, "why": "valgrind timeout"}
        kind = E.classify_sanitizer_report(err or "")
        if rc != 0 or kind:
            # locate the offending kernel
            first = None
            for r, m in zip(recs, meta):
                rc1, err1, _ = drv.run([r], timeout=600, valgrind=True, tag="one")
                if rc1 != 0 or E.classify_sanitizer_report(err1 or ""):
                    first = (m, err1)
                    break
            m, err1 = first if first else (meta[0], err)
            res["violations"].append({"mechanism": "enabled-flag-false-but-read", "what": f"{recipe}: memcheck: output of {m[0]}/{m[1]} ({m[2]}) depends on the uninitialised storage of disabled coefficients "
                                      f"(enabled={m[3]}, uninitialised w ranges {m[4]}): {E.classify_sanitizer_report(err1 or '')}", "replay": {"case": case, "report": (err1 or "")[-1500:]}})
        else:
            count("memcheck_clean", res["evaluations"])
            for m in meta[: res["evaluations"]]:
                res["nontrivial"].append(case_hash([recipe, m[0], m[1], "memcheck"]))
            res["sample"] = {"recipe": recipe, "kernel": meta[0][2], "enabled": meta[0][3], "uninitialised_w_ranges": meta[0][4], "memcheck_errors": 0}
    finally:
        shutil.rmtree(wd, ignore_errors=True)
    res["verdict"] = VIOLATED if res["violations"] else HELD
    return res


def run_case(case):
    if case.get("memcheck"):
        return memcheck_case(case)
    from vf import corpus
    from vf import harness as H
    from vf import oracle as O
    from vf import valuecheck as VC

    recipe = case["recipe"]
    options = dict(case.get("options") or {})
    scalar = options.get("scalar_type", "float64")
    dt, rdt, _, _ = H.SCALARS[scalar]
    cmode = "complex" in scalar
    rng = np.random.default_rng(case.get("seed", [0]))
    res = {"evaluations": 0, "counters": {}, "cover": {}, "nontrivial": [], "violations": []}
    cnt = res["counters"]

    def count(k, n=1):
        cnt[k] = cnt.get(k, 0) + n

    def viol(mech, what, extra=None):
        res["violations"].append({"mechanism": mech, "what": what, "replay": {"case": case, "extra": extra}})

    b = corpus.build(recipe)
    try:
        comp = H.jit_forms(b.forms, options)
    except Exception as e:
        return {"verdict": INCONCLUSIVE, "why": f"ffcx did not compile: {type(e).__name__}: {str(e)[:160]}"}
    ffi = comp.ffi
    sample = None
    for uf, cf in zip(b.forms, comp.objs):
        # (1) oracle comparison with descriptor-driven packing
        obs, desc, orc = VC.run_form(uf, comp, cf, rng, scalar=scalar, entity_limit=4, entity_mode="some", perm_mode="zero")
        for o in obs:
            res["evaluations"] += 1
            if o.status == "ok":
                count("compared_ok")
                if o.maxS > 1e-6:
                    count("compared_ok_nontrivial")
                    res["nontrivial"].append(VC.obs_hash(recipe, o) + scalar)
            elif o.status == "bad":
                viol("packing-value", f"{recipe} {o.itype}/{o.sid} entities {o.entities}: kernel with descriptor-packed w/c differs from "
                     f"the form evaluated on the original objects' values: err={o.err:.3e} > {o.bound:.1e}; "
                     f"positions={desc['original_coefficient_positions']}")
            elif o.status == "unsupported":
                count("oracle_unsupported")
        ocs = orc.original_coefficients
        npos = desc["original_coefficient_positions"]
        dropped = len(ocs) - len(npos)
        if dropped:
            count("forms_with_dropped_coefficients")
        # widths by contract
        # (2) poisoning of disabled coefficients
        for itype, sid, k, itg in H.integral_entries(ffi, cf, desc):
            idesc = H.read_integral(ffi, itg, desc["num_coefficients"])
            en = idesc["enabled_coefficients"]
            ndis = en.count(False)
            count("integrals")
            if ndis == 0:
                count("integrals_all_enabled")
                continue
            count("integrals_with_disabled")
            interior = itype == "interior_facet"
            data = H.make_data(rng, orc.coord_element, ocs, orc.constants, interior, cmode, "affine")
            c = H.pack_c(orc.constants, data, dt)
            x = H.pack_x(data, interior, rdt)
            shape = orc.tensor_shape(itype) or (1,)
            edim, nent = orc.entity_info(itype)
            ents = (int(rng.integers(nent)), int(rng.integers(nent)))
            if interior and O.facet_celltype(orc.cellname, ents[0]) != O.facet_celltype(orc.cellname, ents[1]):
                ents = (ents[0], ents[0])
            ent = None if itype == "cell" else np.array(ents if interior else ents[:1], dtype=np.intc)
            perm = None if itype == "cell" else np.array([0, 0] if interior else [0], dtype=np.uint8)
            w0, _ = H.pack_w(ocs, npos, data, interior, dt)
            A_ref = np.zeros(shape, dtype=dt)
            H.call_kernel(ffi, itg, scalar, A_ref, w0, c, x, ent, perm)
            if not np.all(np.isfinite(A_ref)):
                count("poison_reference_not_finite")
                continue
            for pz in POISONS:
                w1, slots = H.pack_w(ocs, npos, data, interior, dt, fill=pz, enabled=en)
                A1 = np.zeros(shape, dtype=dt)
                H.call_kernel(ffi, itg, scalar, A1, w1, c, x, ent, perm)
                res["evaluations"] += 1
                count("poison_runs")
                if A1.tobytes() != A_ref.tobytes():
                    bad = [kk for kk, e_ in enumerate(en) if not e_]
                    viol("enabled-flag-false-but-read", f"{recipe} {itype}/{sid}: output changes when the storage of disabled coefficients {bad} "
                         f"(enabled={en}) is set to {pz}", {"A_ref": np.ravel(A_ref)[:8].tolist(), "A_poisoned": np.ravel(A1)[:8].tolist()})
                    break
            else:
                count("poison_bitwise_equal")
                res["nontrivial"].append(case_hash([recipe, itype, sid, "poison", scalar]))
                if sample is None:
                    sample = {"recipe": recipe, "form": str(uf)[:240], "integral": [itype, sid], "enabled_coefficients": en,
                              "original_coefficient_positions": npos, "n_original_coefficients": len(ocs),
                              "poison_values": [str(p) for p in POISONS], "output_bitwise_equal": True}
        res["cover"].setdefault("n_coeff(orig->kept)", []).append(f"{len(ocs)}->{len(npos)}")
        res["cover"].setdefault("n_const", []).append(str(len(orc.constants)))
    res["cover"]["cell"] = [recipe["cell"]]
    res["cover"]["mode"] = [str(recipe.get("p", {}).get("mode", recipe["b"]))]
    res["sample"] = sample
    if res["violations"]:
        res["verdict"] = VIOLATED
    elif cnt.get("compared_ok", 0) == 0:
        res["verdict"] = INCONCLUSIVE
        res["why"] = "no comparison ran"
    else:
        res["verdict"] = HELD
    return res


def cases_for(tier, s):
    R = []
    n = 40 if tier == "quick" else 500
    modes = ["subsets", "derivative", "replace", "zero", "elim_const", "rules"]
    for i in range(n):
        cell = CELLS[i % 5]
        opts = {}
        if i % 8 == 5:
            opts = {"scalar_type": ["complex128", "float32"][(i // 8) % 2]}
        R.append({"recipe": {"b": "packing", "cell": cell, "p": {"seed": [s, 5, i], "ncoef": 3 + (i % 6), "nconst": (i % 4) + (2 if modes[i % 6] == "elim_const" else 0),
                                                               "arity": 1 if modes[i % 6] == "derivative" else (i // 4) % 3,
                                                               "use_dS": i % 3 != 0, "mode": modes[i % 6]}},
                  "options": opts, "seed": [s, 500, i]})
    # definedness monitor under valgrind (a few in quick, many in thorough)
    nm = 4 if tier == "quick" else 60
    for i in range(nm):
        cell = CELLS[(i + 1) % 5]
        if cell == "hexahedron":
            cell = "triangle"
        R.append({"memcheck": True, "recipe": {"b": "packing", "cell": cell, "p": {"seed": [s, 55, i], "ncoef": 4 + (i % 4), "nconst": i % 3, "arity": i % 3 if i % 3 else 1, "use_dS": i % 2 == 0, "mode": modes[i % 5] if modes[i % 5] != "derivative" else "subsets"}},
                  "seed": [s, 550, i], "max_kernels": 4 if tier == "quick" else 8})
    R.append({"memcheck": True, "recipe": {"b": "all_types", "cell": "triangle"}, "seed": [s, 551, 0], "max_kernels": 6})
    for cell in ("triangle", "tetrahedron", "quadrilateral"):
        R.append({"recipe": {"b": "jacobian_drop", "cell": cell}, "seed": [s, 501, 0]})
        R.append({"recipe": {"b": "all_types", "cell": cell}, "seed": [s, 501, 1]})
        R.append({"recipe": {"b": "hyperelastic", "cell": cell}, "seed": [s, 501, 2], "wscale": 0.1})
        R.append({"recipe": {"b": "stokes", "cell": cell}, "seed": [s, 501, 3]})
    return R


def main(tier, replay=None):
    s = seed()
    run = Run(
        PID, tier, "exploration",
        "cases = seeded forms with 3..8 coefficients over P1/P2/DG1/vector/mixed elements and 0..3 scalar/vector/tensor constants "
        "created in shuffled order, whose dx/ds/dx(1)/dS integrals use different subsets, and where coefficients drop out through "
        "derivative/replace/zero factors, and scalar constants that only occur under a derivative (eliminated by preprocessing but still packed); w/c packed from descriptor fields only and compared with the oracle on the original objects' values; "
        "every integral with a false enabled_coefficients flag is re-run with NaN/Inf/1e300 in that coefficient's storage and must be bitwise "
        "identical; additionally (4 modules in quick, 60 in thorough) the generated C is linked with the generic driver at -O0 and run under valgrind memcheck with "
        "those slots left UNINITIALISED (definedness tracking: any dependence of the written A on them is reported); "
        "distinct non-trivial = compared kernel calls with magnitude>1e-6 plus poisoned / memchecked integrals that ran",
        ["UFL/basix trusted", "the converse (enabled => really read) is not part of the property and not checked",
         "bitwise equality under NaN poisoning detects reads that reach A; a read whose value is discarded before reaching A is not observable (and harmless)"],
    )
    cases = cases_for(tier, s)
    if replay:
        import json

        cases = [json.load(open(replay))["replay"]["case"]]
    results = run_pool("c05", cases, per_case_timeout=240, chunk=3, deadline=time.time() + wall_budget(tier, 420, 2400))
    for r in results:
        run.add(r)
    run.require("compared_ok_nontrivial", 60 if not replay else 1)
    run.require("poison_bitwise_equal", 20 if not replay else 0)
    run.require("memcheck_clean", 4 if not replay else 0)
    return run.finish()


if __name__ == "__main__":
    main_wrapper(main)
