"""C15 — a failed or killed JIT build never poisons later requests or the process.

Fault enumeration over the builder's protocol events:
 fail : the build fails inside the process (exception in code generation; compiler error from a persistent bad flag;
        TRANSIENT compiler error and link error through a CC wrapper that fails while a flag file exists); the request must
        raise, the lock must be gone (renamed to .failed), root-logger handlers (identity and order), sys.stdout/stderr and cwd
        must be as before the call, and the next fault-free request (same process and another process) must build afresh
        and return correct kernels;
 kill : the builder is SIGKILLed before its k-th protocol event (k enumerated from a recorded clean run), or d seconds after the
        compiler / linker launch (with or without its process group); later request sequences (one; two sequential; two concurrent;
        another form; after manual removal of the .c lock) must each either return kernels that agree with the oracle, loaded with the
        ready marker present, or raise; never load without the marker, never return wrong kernels, never hang beyond timeout + slack.
"""

from __future__ import annotations

import json
import os
import shutil
import stat
import tempfile
import time

import numpy as np

from vf.common import wall_budget, HELD, INCONCLUSIVE, VIOLATED, Run, case_hash, main_wrapper, run_pool, seed

PID = "C15"
REQ = {"recipe": {"b": "mass", "cell": "triangle"}}
REQ2 = {"recipe": {"b": "stiff_nl", "cell": "interval"}}
TOL = 1e-11


def cc_wrapper(hdir):
    p = os.path.join(hdir, "ccwrap.sh")
    with open(p, "w") as f:
        f.write("#!/bin/bash\n"
                f"if [ -e {hdir}/FAIL_CC ]; then case \" $* \" in *\" -c \"*) echo 'injected compiler failure' >&2; exit 1;; esac; fi\n"
                f"if [ -e {hdir}/FAIL_LINK ]; then case \" $* \" in *\" -shared \"*) echo 'injected link failure' >&2; exit 1;; esac; fi\n"
                "exec gcc \"$@\"\n")
    os.chmod(p, os.stat(p).st_mode | stat.S_IEXEC)
    return p


def run_case(case):
    from vf import jithist as JH

    res = {"evaluations": 0, "counters": {}, "cover": {}, "nontrivial": [], "violations": []}
    cnt = res["counters"]

    def count(k, n=1):
        cnt[k] = cnt.get(k, 0) + n

    def viol(mech, what, extra=None):
        res["violations"].append({"mechanism": mech, "what": f"{case['kind']}/{case.get('fault') or case.get('kill') or case.get('interrupt')}: {what}", "replay": {"case": case, "extra": extra}})

    base = os.environ.get("VF_SCRATCH", "/var/tmp")
    hdir = tempfile.mkdtemp(prefix="h15-", dir=base)
    try:
        cache = os.path.join(hdir, "cache")
        os.makedirs(cache)
        logp = os.path.join(hdir, "events.jsonl")
        exp = os.path.join(hdir, "expected.json")
        json.dump(JH.expected_for(REQ["recipe"], seed=1), open(exp, "w"))
        exp2 = os.path.join(hdir, "expected2.json")
        json.dump(JH.expected_for(REQ2["recipe"], seed=2), open(exp2, "w"))
        env = {}
        common = {"cache_dir": cache, "log": logp, "compile_args": ["-O0"]}
        if case["kind"] == "fail":
            fault = case["fault"]
            spec = dict(common, role="f0", request=REQ, expected=exp, timeout=5, repeat=2, user_handler=case.get("user_handler", False))
            if fault == "codegen_exception":
                spec.update(fault="codegen_exception", fault_once=True)
            elif fault == "bad_flag":
                spec["compile_args"] = ["-O0", "-fno-such-option-xyz"]
            elif fault == "bad_library":
                # the first request names a library that does not exist (link error); the next requests do not
                spec.update(cffi_libraries=["ffcx_verif_no_such_library"], cffi_libraries_once=True)
            elif fault in ("transient_cc", "transient_link"):
                w = cc_wrapper(hdir)
                env = {"CC": w}
                flag = os.path.join(hdir, "FAIL_CC" if fault == "transient_cc" else "FAIL_LINK")
                open(flag, "w").close()
                spec["remove_after_first"] = [flag]
            p = JH.launch(spec, hdir, "f0", env)
            rcs = JH.wait_all([p], watchdog=200)
            # a later request from another process (fault-free, same flags as the failing one)
            spec2 = dict(common, role="g0", request=REQ, expected=exp, timeout=5, compile_args=spec["compile_args"])
            p2 = JH.launch(spec2, hdir, "g0", env)
            rcs += JH.wait_all([p2], watchdog=200)
            events = JH.read_log(logp)
            res["evaluations"] = 3
            if any(r is None for r in rcs):
                return {"verdict": INCONCLUSIVE, "why": "watchdog fired"}
            rets = {(e["role"], e.get("req")): e for e in events if e["ev"] == "return"}
            if ("f0", 0) not in rets or ("f0", 1) not in rets or ("g0", 0) not in rets:
                errs = open(os.path.join(hdir, "err-f0.txt")).read()[-400:]
                return {"verdict": INCONCLUSIVE, "why": "missing return records: " + errs}
            r0, r1, g0 = rets[("f0", 0)], rets[("f0", 1)], rets[("g0", 0)]
            count("failing_requests")
            if r0["status"] != "raised":
                viol("failure-not-raised", f"request with injected {fault} returned instead of raising")
            else:
                count("failure_raised")
            mod_files = r0.get("files", [])
            if any(f.endswith(".c") for f in mod_files):
                viol("lock-not-released-after-failure", f"after the failed request the lock file is still present: {mod_files}")
            else:
                count("lock_released")
            if not any(f.endswith(".c.failed") for f in mod_files) and fault != "codegen_exception_before_lock":
                viol("lock-not-released-after-failure", f"no .c.failed file after the failure: {mod_files}")
            sc = r0.get("state_changed") or {}
            if "handlers" in sc or "handler_types" in sc:
                viol("root-logger-handlers-not-restored", f"logging.getLogger().handlers after the failed request: {sc.get('handler_types')} (ids {sc.get('handlers')})")
            else:
                count("handlers_restored")
            for k in ("stdout", "stderr", "cwd", "root_level", "disabled"):
                if k in sc:
                    viol("process-state-not-restored", f"{k} changed across the failed request: {sc[k]}")
            count("state_checks")
            # next request in the same process
            persistent = fault == "bad_flag"
            for name, rr in (("same process", r1), ("other process", g0)):
                if persistent:
                    # still failing flags: must fail again quickly by building afresh, not wait for the timeout
                    if rr["status"] != "raised" or rr.get("exc") == "TimeoutError":
                        viol("next-request-waits-instead-of-building", f"next request ({name}) with the same bad flag: {rr['status']} {rr.get('exc')}")
                    else:
                        count("next_request_builds_afresh")
                else:
                    if rr["status"] != "returned":
                        viol("next-request-fails-after-failure", f"next fault-free request ({name}) raised {rr.get('exc')}: {rr.get('msg')}")
                    elif rr.get("kernel_err") is None or rr["kernel_err"] > TOL:
                        viol("wrong-kernels-returned", f"next request ({name}) returned kernels with error {rr.get('kernel_err')} {rr.get('kernel_check_error')}")
                    else:
                        count("next_request_ok")
                sc1 = rr.get("state_changed") or {}
                if "handlers" in sc1 or "handler_types" in sc1:
                    viol("root-logger-handlers-not-restored", f"handlers changed across the next request ({name}): {sc1.get('handler_types')}")
            # the request right after the failure must launch the compiler itself (build afresh)
            f0_cc = [e for e in events if e["ev"] == "proto" and e["key"] == "popen_cc" and e["role"] == "f0"]
            t_r0 = r0["t"]
            if not persistent and not any(e["t"] > t_r0 for e in f0_cc):
                viol("next-request-did-not-build", "no compiler launch by the request following the failure")
            if not res["violations"]:
                res["nontrivial"].append(case_hash([case["kind"], fault, case.get("user_handler")]))
            res["sample"] = {"kind": "fail", "fault": fault, "failed_request": {k: r0.get(k) for k in ("status", "exc", "files", "state_changed")},
                             "next_same_process": {k: r1.get(k) for k in ("status", "kernel_err", "from_cache")},
                             "next_other_process": {k: g0.get(k) for k in ("status", "kernel_err", "from_cache")}}
            res["cover"]["fault"] = [fault + ("+user_handler" if case.get("user_handler") else "")]
        elif case["kind"] == "interrupt":
            intr = case["interrupt"]
            spec = dict(common, role="f0", request=REQ, expected=exp, timeout=3, repeat=2, user_handler=case.get("user_handler", False), interrupt=intr)
            p = JH.launch(spec, hdir, "f0", env)
            rcs = JH.wait_all([p], watchdog=200)
            events = JH.read_log(logp)
            res["evaluations"] = 2
            if any(r is None for r in rcs):
                return {"verdict": INCONCLUSIVE, "why": "watchdog fired"}
            rets = {(e["role"], e.get("req")): e for e in events if e["ev"] == "return"}
            if ("f0", 0) not in rets or ("f0", 1) not in rets:
                return {"verdict": INCONCLUSIVE, "why": "interrupt fell outside the request (no return records): " + open(os.path.join(hdir, "err-f0.txt")).read()[-200:]}
            r0, r1 = rets[("f0", 0)], rets[("f0", 1)]
            if r0["status"] != "raised" or r0.get("exc") != "KeyboardInterrupt":
                return {"verdict": INCONCLUSIVE, "why": f"the interrupt did not end the request ({r0['status']} {r0.get('exc')})"}
            count("interrupted_requests")
            for name, rr in (("the interrupted request", r0), ("the next request in the same process", r1)):
                sc = rr.get("state_changed") or {}
                if "handlers" in sc or "handler_types" in sc:
                    viol("root-logger-handlers-not-restored", f"logging.getLogger().handlers after {name}: {sc.get('handler_types')} (ids {sc.get('handlers')})")
                else:
                    count("handlers_restored")
                for k in ("stdout", "stderr", "cwd", "root_level", "disabled"):
                    if k in sc:
                        viol("process-state-not-restored", f"{k} changed across {name}: {sc[k]}")
                count("state_checks")
            # the next request: a complete correct module, or an exception within the timeout (the lock of the interrupted build may remain)
            if r1["status"] == "returned":
                if r1.get("kernel_err") is None or r1["kernel_err"] > TOL:
                    viol("wrong-kernels-returned", f"request after the interrupt returned kernels with error {r1.get('kernel_err')} {r1.get('kernel_check_error')}")
                else:
                    count("next_request_ok")
            else:
                count("next_raised_" + str(r1.get("exc")))
            if not res["violations"]:
                res["nontrivial"].append(case_hash([case["kind"], intr, case.get("user_handler")]))
            res["sample"] = {"kind": "interrupt", "interrupt": intr, "interrupted_request": {k: r0.get(k) for k in ("status", "exc", "files", "state_changed")},
                             "next_same_process": {k: r1.get(k) for k in ("status", "exc", "kernel_err", "from_cache", "state_changed")}}
            res["cover"]["fault"] = ["interrupt:" + json.dumps(intr, sort_keys=True) + ("+user_handler" if case.get("user_handler") else "")]
        else:
            kill = case["kill"]
            spec = dict(common, role="victim", request=REQ, expected=exp, timeout=5, kill=kill, new_session=True)
            p = JH.launch(spec, hdir, "victim")
            rcs = JH.wait_all([p], watchdog=120)
            time.sleep(0.3)
            ev0 = JH.read_log(logp)
            killed = rcs[0] is not None and rcs[0] < 0
            res["evaluations"] = 1
            if not killed:
                # kill point beyond the end of the protocol (nothing to test) or the process ended normally
                return {"verdict": INCONCLUSIVE, "why": f"victim was not killed (rc={rcs[0]}); kill point not reached"}
            count("builders_killed")
            nproto = sum(1 for e in ev0 if e["ev"] == "proto" and e["role"] == "victim")
            files_after_kill = sorted(os.listdir(cache))
            seq = case["sequence"]
            tmo = 3
            later = []
            t_start = time.time()
            if seq == "one":
                later = [[dict(common, role="l0", request=REQ, expected=exp, timeout=tmo)]]
            elif seq == "two_sequential":
                later = [[dict(common, role="l0", request=REQ, expected=exp, timeout=tmo)], [dict(common, role="l1", request=REQ, expected=exp, timeout=tmo)]]
            elif seq == "two_concurrent":
                later = [[dict(common, role="l0", request=REQ, expected=exp, timeout=tmo), dict(common, role="l1", request=REQ, expected=exp, timeout=tmo, start_delay=0.3)]]
            elif seq == "other_form":
                later = [[dict(common, role="l0", request=REQ2, expected=exp2, timeout=tmo)], [dict(common, role="l1", request=REQ, expected=exp, timeout=tmo)]]
            elif seq == "after_lock_removal":
                for f in os.listdir(cache):
                    if f.endswith(".c"):
                        os.unlink(os.path.join(cache, f))
                later = [[dict(common, role="l0", request=REQ, expected=exp, timeout=tmo)], [dict(common, role="l1", request=REQ, expected=exp, timeout=tmo)]]
            for wave in later:
                ps = [JH.launch(s_, hdir, s_["role"]) for s_ in wave]
                r = JH.wait_all(ps, watchdog=150)
                res["evaluations"] += len(ps)
                if any(x is None for x in r):
                    viol("later-request-hangs", f"a later request neither returned nor raised within the watchdog (timeout option = {tmo} polls)")
            events = JH.read_log(logp)
            rets = [e for e in events if e["ev"] == "return" and e["role"] != "victim"]
            want = sum(len(w) for w in later)
            if len(rets) != want and not res["violations"]:
                return {"verdict": INCONCLUSIVE, "why": f"{len(rets)} of {want} later requests reported"}
            for e in rets:
                count("later_requests")
                if e["status"] == "returned":
                    if e.get("kernel_err") is None or e["kernel_err"] > TOL:
                        viol("wrong-kernels-returned", f"{e['role']} returned kernels with error {e.get('kernel_err')} {e.get('kernel_check_error')} after the builder was killed (files then: {files_after_kill})")
                    else:
                        count("later_returned_correct")
                else:
                    count("later_raised_" + str(e.get("exc")))
                    if e["role"] == "l0" and seq == "other_form":
                        viol("unrelated-request-fails-after-kill", f"request for another form raised {e.get('exc')}: {e.get('msg')}")
            for e in events:
                if e["ev"] == "proto" and e["key"] == "import" and e["role"] != "victim":
                    builder_self = any(b["pid"] == e["pid"] and b["outcome"] == "builder" for b in events if b["ev"] == "lock_result")
                    if not e.get("marker_exists") and not builder_self:
                        viol("load-without-marker", f"{e['role']} loaded {e['detail']} ({e.get('so_size')} bytes) while the ready marker was absent (files after kill: {files_after_kill})")
                    count("later_loads")
                if e["ev"] == "lock_result" and e["role"] != "victim" and e.get("waited", 0) > tmo + 20:
                    res.setdefault("slow", True)
            if not res["violations"]:
                res["nontrivial"].append(case_hash([kill, seq]))
            res["sample"] = {"kind": "kill", "kill": kill, "victim_protocol_events": nproto, "files_after_kill": files_after_kill, "sequence": seq,
                             "later": [{k: e.get(k) for k in ("role", "status", "exc", "kernel_err", "from_cache")} for e in rets]}
            res["cover"]["kill_point"] = [json.dumps(kill, sort_keys=True)]
            res["cover"]["sequence"] = [seq]
            res["cover"]["state_after_kill"] = [",".join(sorted({f.split(".", 1)[1] if "." in f else f for f in files_after_kill}))]
    finally:
        shutil.rmtree(hdir, ignore_errors=True)
    res["verdict"] = VIOLATED if res["violations"] else HELD
    return res


def cases_for(tier, s):
    R = []
    for fault in ("codegen_exception", "bad_flag", "transient_cc", "transient_link", "bad_library"):
        R.append({"kind": "fail", "fault": fault})
        R.append({"kind": "fail", "fault": fault, "user_handler": True})
    # Ctrl-C (KeyboardInterrupt) at protocol points inside the build, in a process that survives it
    for i, intr in enumerate([{"before": "popen_cc"}, {"before": "popen_link"}, {"after_popen": "cc", "delta": 0.02}, {"before": "marker_open"},
                              {"before": "rename_src"}, {"after_popen": "link", "delta": 0.01}]):
        if tier == "quick" and i >= 4:
            continue
        R.append({"kind": "interrupt", "interrupt": intr, "user_handler": bool(i % 2)})
        if tier == "thorough":
            R.append({"kind": "interrupt", "interrupt": intr, "user_handler": not bool(i % 2)})
    kills = [{"before_event": k} for k in range(0, 8)]
    kills += [{"after_popen": "cc", "delta": 0.05, "group": True}, {"after_popen": "cc", "delta": 0.05, "group": False},
              {"after_popen": "cc", "delta": 0.3, "group": True}, {"after_popen": "link", "delta": 0.02, "group": True}, {"after_popen": "link", "delta": 0.02, "group": False},
              {"after_popen": "link", "delta": 0.1, "group": True}]
    seqs = ["one", "two_sequential", "two_concurrent", "other_form", "after_lock_removal"]
    if tier == "quick":
        for i, k in enumerate(kills):
            R.append({"kind": "kill", "kill": k, "sequence": seqs[i % len(seqs)]})
            if i % 3 == 0:
                R.append({"kind": "kill", "kill": k, "sequence": "after_lock_removal"})
    else:
        for rep in range(3):
            for k in kills:
                kk = dict(k)
                if "delta" in kk and rep:
                    kk["delta"] = kk["delta"] * (1 + rep)
                for sq in seqs:
                    R.append({"kind": "kill", "kill": kk, "sequence": sq})
    for i, c in enumerate(R):
        c["seed"] = [s, 15, i]
    return R


def main(tier, replay=None):
    s = seed()
    run = Run(
        PID, tier, "fault_enumeration",
        "failure kinds {exception inside code generation, persistent bad compiler flag, transient compiler error, transient link error (CC wrapper)} x {with/without a "
        "user root-logger handler}: the failing request, the next request in the same process and one from another process are observed; kill points = SIGKILL before "
        "each protocol event k=0..7 of the builder (exclusive create, source write, rename, compiler launch, link launch, marker create, load, ...) and 20-300 ms after the "
        "compiler / linker launch (with and without the process group), each followed by a later-request sequence from {one, two sequential, two concurrent, other form, "
        "after manual removal of the lock}; distinct non-trivial = (fault | kill point x sequence) scenarios that ran to a verdict without violation",
        ["process death only (no power loss / unsynced data)", "timeout option of later requests = 3 polls; a generous outer watchdog firing is reported as a hang only for later requests",
         "kill points are enumerated from the protocol events observed through sys.addaudithook"],
    )
    cases = cases_for(tier, s)
    if replay:
        cases = [json.load(open(replay))["replay"]["case"]]
    results = run_pool("c15", cases, per_case_timeout=500, chunk=1, nproc=8, deadline=time.time() + wall_budget(tier, 540, 3300))
    for r in results:
        run.add(r)
    run.require("builders_killed", 10 if not replay else 0)
    run.require("failing_requests", 6 if not replay else 0)
    return run.finish()


if __name__ == "__main__":
    main_wrapper(main)
