"""C16 — formatted source means exactly what the code-generation AST says.

For every generated LNodes tree: (a) the C text is re-parsed with pycparser, the numba text with Python's ast, and both
are compared, as canonical S-expressions, with the tree itself; (b) the compiled C text (clang, UBSan, -ffp-contract=off)
and the evaluated Python text must give the value the bounds-checked AST interpreter gives; (c) float literals must read
back within one unit in the last place.  Trees: EXHAUSTIVE (parent, child, operand position) triples over all expression
node types with literal/symbol grandchildren of both signs, exhaustive depth-3 trees over the arithmetic/logic core, seeded
random deep trees, and statement trees (declarations, nested loops, sections, multi-indices).
"""

from __future__ import annotations

import itertools
import json
import math
import os
import shutil
import subprocess
import time

import numpy as np

import vf.repoenv  # noqa: F401
from vf.common import wall_budget, HELD, INCONCLUSIVE, VIOLATED, Run, case_hash, main_wrapper, run_pool, seed

PID = "C16"
ENV = {"a": 1.75, "b": -0.625, "c": 3.5, "d": -2.25, "i": 2, "j": 1, "k": 0, "s": 0.5}
ARR = [0.25 * (n + 1) * (-1) ** n for n in range(24)]


def leaves(L, complex_mode=False):
    R, I, S = L.DataType.REAL, L.DataType.INT, L.DataType.SCALAR
    out = {
        "num": [L.LiteralFloat(2.5), L.LiteralFloat(-2.0), L.LiteralFloat(0.5), L.LiteralInt(3), L.LiteralInt(-2), L.Symbol("a", R), L.Symbol("b", R),
                L.Symbol("i", I), L.Symbol("s", S)],
        "int": [L.LiteralInt(2), L.LiteralInt(1), L.Symbol("i", I), L.Symbol("j", I), L.LiteralInt(-1)],
    }
    if complex_mode:
        out["num"] += [L.LiteralFloat(1.5 - 0.5j), L.LiteralFloat(-0.25 + 2j), L.LiteralFloat(2j), L.LiteralFloat(-1.5j)]
    return out


FUNCS1 = ["abs", "exp", "sin", "cos", "atan", "tanh", "sqrt", "erf", "ln"]
FUNCS2 = ["power", "atan_2", "min_value", "max_value"]


def constructors(L):
    """name -> (arity kinds, builder).  kinds: n = numeric operand, b = boolean operand, i = int operand."""
    arr = L.Symbol("arr", L.DataType.REAL)
    C = {
        "Neg": ("n", lambda x: L.Neg(x)),
        "Add": ("nn", lambda x, y: L.Add(x, y)),
        "Sub": ("nn", lambda x, y: L.Sub(x, y)),
        "Mul": ("nn", lambda x, y: L.Mul(x, y)),
        "Div": ("nn", lambda x, y: L.Div(x, y)),
        "Sum3": ("nnn", lambda x, y, z: L.Sum([x, y, z])),
        "Product3": ("nnn", lambda x, y, z: L.Product([x, y, z])),
        "Sum1": ("n", lambda x: L.Sum([x])),
        "Cond": ("bnn", lambda c, x, y: L.Conditional(c, x, y)),
        "Access": ("i", lambda i: L.ArrayAccess(arr, [i])),
        "Access2": ("ii", lambda i, j: L.ArrayAccess(L.Symbol("arr2", L.DataType.REAL), [i, j])),
        "MultiIndex": ("ii", lambda i, j: L.MultiIndex([i, j], [3, 4])),
        "LT": ("nn", lambda x, y: L.LT(x, y)),
        "GT": ("nn", lambda x, y: L.GT(x, y)),
        "LE": ("nn", lambda x, y: L.LE(x, y)),
        "GE": ("nn", lambda x, y: L.GE(x, y)),
        "EQ": ("nn", lambda x, y: L.EQ(x, y)),
        "NE": ("nn", lambda x, y: L.NE(x, y)),
        "And": ("bb", lambda x, y: L.And(x, y)),
        "Or": ("bb", lambda x, y: L.Or(x, y)),
        "Not": ("b", lambda x: L.Not(x)),
    }
    for f in FUNCS1:
        C["fn_" + f] = ("n", (lambda f: lambda x: L.MathFunction(f, [x]))(f))
    for f in FUNCS2:
        C["fn_" + f] = ("nn", (lambda f: lambda x, y: L.MathFunction(f, [x, y]))(f))
    return C


BOOLNODES = {"LT", "GT", "LE", "GE", "EQ", "NE", "And", "Or", "Not"}
INTNODES = {"MultiIndex"}


def kind_of(name):
    return "b" if name in BOOLNODES else "n"


def gen_triples(L, complex_mode, rng):
    """All (parent, position, child) with leaf grandchildren; several leaf assignments per triple."""
    C = constructors(L)
    lv = leaves(L, complex_mode)
    boolleaf = [L.LT(L.Symbol("a", L.DataType.REAL), L.Symbol("b", L.DataType.REAL)), L.GE(L.Symbol("i", L.DataType.INT), L.LiteralInt(1))]

    def leaf(kind, n):
        if kind == "b":
            return boolleaf[n % len(boolleaf)]
        if kind == "i":
            return lv["int"][n % len(lv["int"])]
        return lv["num"][n % len(lv["num"])]

    INTCAP = {"Neg", "Add", "Sub", "Mul", "Sum3", "Product3", "Sum1", "MultiIndex"}
    REALONLY = {"fn_atan_2", "fn_min_value", "fn_max_value", "fn_erf"}
    LOGIC = BOOLNODES | {"Cond"}
    out = []
    for pname, (pk, pb) in C.items():
        if complex_mode and (pname in LOGIC or pname in REALONLY):
            continue
        for pos in range(len(pk)):
            want = pk[pos]
            for cname, (ck, cb) in C.items():
                if complex_mode and (cname in LOGIC or cname in REALONLY):
                    continue
                ckind = "b" if cname in BOOLNODES else "n"
                if want == "b" and ckind != "b":
                    continue
                if want in ("n", "i") and ckind == "b":
                    continue
                if want == "i" and cname not in INTCAP:
                    continue
                for variant in range(3):
                    try:
                        # children in an index position are built from int leaves only
                        child = cb(*[leaf("i" if (want == "i" and k == "n") else k, variant * 3 + q + 1) for q, k in enumerate(ck)])
                        ops = [leaf(k, variant * 5 + q) for q, k in enumerate(pk)]
                        ops[pos] = child
                        t = pb(*ops)
                    except Exception:
                        continue
                    out.append((f"{pname}[{pos}]<-{cname}", t))
    return out


def gen_depth3(L, rng, limit):
    C = constructors(L)
    core = ["Neg", "Add", "Sub", "Mul", "Div", "Sum3", "Product3", "Cond", "LT", "EQ", "And", "Or", "Not", "fn_abs"]
    lv = leaves(L)
    sym = [L.Symbol("a", L.DataType.REAL), L.Symbol("b", L.DataType.REAL), L.LiteralFloat(-2.0), L.LiteralInt(3), L.Symbol("c", L.DataType.REAL)]
    bl = [L.LT(sym[0], sym[1])]
    out = []

    def build(name, depth, n):
        pk, pb = C[name]
        ops = []
        for q, k in enumerate(pk):
            if depth == 0:
                ops.append(bl[0] if k == "b" else (lv["int"][(n + q) % 4] if k == "i" else sym[(n + q) % len(sym)]))
            else:
                cands = [c for c in core if (kind_of(c) == "b") == (k == "b")]
                ops.append(build(cands[(n * 7 + q * 3 + depth) % len(cands)], depth - 1, n + q + 1))
        return pb(*ops)

    n = 0
    for a, b_, c in itertools.product(core, repeat=3):
        n += 1
        if limit and n % max(1, (len(core) ** 3) // limit) != 0:
            continue
        try:
            pk, pb = C[a]
            ops = []
            for q, k in enumerate(pk):
                mid = b_ if (kind_of(b_) == "b") == (k == "b") else None
                if mid is None:
                    ops.append(bl[0] if k == "b" else sym[(n + q) % len(sym)])
                    continue
                mk, mb = C[mid]
                mops = []
                for r, k2 in enumerate(mk):
                    inner = c if (kind_of(c) == "b") == (k2 == "b") else None
                    if inner is None:
                        mops.append(bl[0] if k2 == "b" else sym[(n + r) % len(sym)])
                    else:
                        mops.append(build(inner, 0, n + r))
                ops.append(mb(*mops))
            out.append((f"d3:{a}/{b_}/{c}", pb(*ops)))
        except Exception:
            continue
    return out


def gen_random(L, rng, n, maxdepth=8, complex_mode=False):
    C = constructors(L)
    names = list(C)
    lv = leaves(L, complex_mode)
    bl = [L.LT(L.Symbol("a", L.DataType.REAL), L.Symbol("b", L.DataType.REAL))]

    def build(kind, depth):
        if depth <= 0 or rng.random() < 0.15:
            if kind == "b":
                return bl[0]
            if kind == "i":
                return lv["int"][int(rng.integers(len(lv["int"])))]
            return lv["num"][int(rng.integers(len(lv["num"])))]
        for _ in range(20):
            nm = names[int(rng.integers(len(names)))]
            if kind == "i":
                if nm not in ("Add", "Mul", "Sub", "MultiIndex", "Neg"):
                    continue
                pk, pb = C[nm]
                try:
                    return pb(*[build("i", depth - 1) for _ in pk])
                except Exception:
                    continue
            if (kind_of(nm) == "b") != (kind == "b") or nm in INTNODES:
                continue
            if complex_mode and (nm in BOOLNODES or nm in ("Cond", "fn_atan_2", "fn_min_value", "fn_max_value", "fn_erf")):
                continue
            pk, pb = C[nm]
            try:
                return pb(*[build(k, depth - 1) for k in pk])
            except Exception:
                continue
        return build(kind, 0)

    return [(f"rand{q}", build("n" if (q % 4 or complex_mode) else "b", int(rng.integers(2, maxdepth + 1)))) for q in range(n)]


def gen_overloads(L, rng, n):
    """Trees as ffcx itself builds them: through the overloaded operators (may produce Neg of negative literals etc.)."""
    lv = leaves(L)["num"]
    out = []
    for q in range(n):
        x = lv[int(rng.integers(len(lv)))]
        for _ in range(int(rng.integers(1, 6))):
            y = lv[int(rng.integers(len(lv)))]
            op = int(rng.integers(6))
            try:
                x = [lambda: x + y, lambda: x - y, lambda: x * y, lambda: x / y, lambda: -x, lambda: y - x][op]()
            except Exception:
                pass
        out.append((f"ovl{q}", x))
    return out


# ---------------------------------------------------------------- evaluation helpers
def interp_value(t, complex_mode=False):
    from vf.astinterp import Array, AstError, Interp, Unsupported

    env = dict(ENV)
    if complex_mode:
        env["s"] = 0.5 - 1.25j
    it = Interp(env=env, arrays={"arr": Array("arr", (24,), ARR), "arr2": Array("arr2", (3, 4), ARR[:12])})
    it.scalar_complex = complex_mode
    try:
        v = it.ev(t)
    except ZeroDivisionError:
        return "divzero"
    except (ValueError, OverflowError):
        return float("nan")
    except TypeError as e:
        return "typeerror:" + str(e)[:60]  # e.g. ordering of complex values: not meaningful in C either
    except AstError as e:
        return "asterror:" + str(e)[:60]
    except Unsupported as e:
        return "unsupported:" + str(e)
    if it.ambiguous:
        return "ambiguous:" + it.ambiguous
    interp_value.int_typed = it.int_typed_math
    if it.branch_cut_function:
        return "branch-cut-function-in-complex-mode"
    if it.saw_nan:
        return "nan-intermediate"
    if isinstance(v, (bool, np.bool_)):
        return float(v)
    return complex(v) if isinstance(v, complex) else float(v)


def close(x, y, rel=1e-9):
    if isinstance(x, str) or isinstance(y, str):
        return None
    x, y = complex(x), complex(y)
    if any(math.isinf(v) for v in (x.real, x.imag, y.real, y.imag)):
        return None  # overflow: complex infinities are represented differently by C, numpy and Python
    if cmath_isnan(x) and cmath_isnan(y):
        return True
    if cmath_isnan(x) != cmath_isnan(y):
        return False
    if math.isinf(x.real) or math.isinf(y.real):
        return x == y
    return abs(x - y) <= rel * max(abs(x), abs(y), 1e-300)


def cmath_isnan(z):
    return math.isnan(z.real) or math.isnan(z.imag)


def compile_and_eval_c(texts, wd, complex_mode=False):
    """Compile `out[k] = <text_k>` for all texts (UBSan, no contraction) and return list of values or error string."""
    T = "double _Complex" if complex_mode else "double"
    lines = ["#include <math.h>", "#include <complex.h>", "#include <stdio.h>", "#include <stdbool.h>",
             "int main(void){", "  const double a=1.75, b=-0.625, c=3.5, d=-2.25; const int i=2, j=1, k=0;",
             f"  const {T} s = {'0.5 - 1.25*I' if complex_mode else '0.5'};",
             "  double arr[24]; for (int n=0;n<24;++n) arr[n] = 0.25*(n+1)*((n%2)?-1.0:1.0);",
             "  double arr2[3][4]; for (int n=0;n<12;++n) arr2[n/4][n%4] = arr[n];",
             "  (void)a;(void)b;(void)c;(void)d;(void)i;(void)j;(void)k;(void)s;"]
    for q, t in enumerate(texts):
        lines.append(f"  {{ {T} v = ({t}); printf(\"%d %a %a\\n\", {q}, (double)creal(v), (double)cimag(v)); }}")
    lines.append("  return 0; }")
    src = os.path.join(wd, "e.c")
    open(src, "w").write("\n".join(lines) + "\n")
    exe = os.path.join(wd, "e")
    p = subprocess.run(["clang", "-std=c17", "-O0", "-ffp-contract=off", "-fsanitize=undefined", "-fno-sanitize-recover=undefined", "-w", src, "-lm", "-o", exe],
                       capture_output=True, text=True, timeout=600)
    if p.returncode != 0:
        return None, p.stderr[-2000:]
    r = subprocess.run([exe], capture_output=True, text=True, timeout=120)
    vals = {}
    for line in r.stdout.splitlines():
        q, re_, im_ = line.split()
        vals[int(q)] = complex(float.fromhex(re_), float.fromhex(im_))
    return vals, r.stderr[-1500:] if r.returncode != 0 else ""


def py_value(text, complex_mode=False):
    env = dict(ENV)
    if complex_mode:
        env["s"] = 0.5 - 1.25j
    env["arr"] = np.array(ARR)
    env["arr2"] = np.array(ARR[:12]).reshape(3, 4)
    env["np"] = np
    env["math"] = math
    try:
        with np.errstate(all="ignore"):
            v = eval(compile(text, "<numba-text>", "eval"), env)
    except ZeroDivisionError:
        return "divzero"
    except SyntaxError as e:
        return "syntaxerror:" + str(e)[:50]
    except IndexError:
        return "indexerror"
    except (AttributeError, NameError, TypeError) as e:
        return "nameerror:" + f"{type(e).__name__}: {e}"[:90]
    except (ValueError, OverflowError):
        return float("nan")
    if isinstance(v, (bool, np.bool_)):
        return float(v)
    return complex(v)


# ---------------------------------------------------------------- statements
def gen_programs(L, rng, n):
    """Small statement trees: declarations, sections, nested loops, assignments with multi-indices."""
    R, I = L.DataType.REAL, L.DataType.INT
    progs = []
    for q in range(n):
        A = L.Symbol("A", R)
        T1 = L.Symbol("t1", R)
        w = L.Symbol("w", R)
        i, j, k = L.Symbol("i", I), L.Symbol("j", I), L.Symbol("k", I)
        n1, n2 = int(rng.integers(1, 4)), int(rng.integers(1, 5))
        tab = L.Symbol("tab", R)
        tabv = np.round(rng.uniform(-2, 2, (n1, n2)), 3)
        mi = L.MultiIndex([i, j], [n1, n2])
        sgn = -1.0 if q % 2 else 1.0
        val = L.Sum([L.Mul(L.ArrayAccess(tab, [i, j]), L.LiteralFloat(sgn * 1.5)), L.Neg(w), L.LiteralFloat(float(q % 3) - 1.0)])
        body_inner = [L.AssignAdd(L.ArrayAccess(A, [mi]), val)]
        if q % 3 == 0:
            body_inner.append(L.Assign(L.ArrayAccess(T1, [j]), L.Div(L.ArrayAccess(A, [mi]), L.LiteralFloat(-4.0))))
        loop = L.ForRange(i, 0, n1, [L.ForRange(j, 0, n2, body_inner)])
        sec = L.Section("S" + str(q), [loop], [L.ArrayDecl(T1, sizes=(n2,), values=np.array([0.0]))], [tab], [A])
        decl = L.VariableDecl(w, L.Sub(L.LiteralFloat(0.75), L.LiteralFloat(-0.5 * (q % 4))))
        post = L.ForRange(k, 0, n1 * n2, [L.Assign(L.ArrayAccess(A, [k]), L.Product([L.ArrayAccess(A, [k]), L.LiteralFloat(-1.0), L.Add(w, L.LiteralInt(2))]))])
        prog = L.StatementList([L.ArrayDecl(tab, values=tabv, const=True), decl, sec, L.Comment("post"), post])
        progs.append((f"prog{q}", prog, n1 * n2))
    return progs


def run_prog_interp(prog, nA):
    from vf.astinterp import Array, Interp

    A = Array("A", (nA,), np.arange(nA) * 0.5 + 1.0)
    it = Interp(env={}, arrays={"A": A})
    it.run(prog)
    return A.data.copy(), it.n_access


def run_progs_c(items, wd, Fmt):
    lines = ["#include <math.h>", "#include <stdio.h>", "#include <stdbool.h>"]
    for q, (name, prog, nA) in enumerate(items):
        lines.append(f"static void p{q}(double* A){{\n{Fmt(prog)}\n}}")
    lines.append("int main(void){")
    for q, (name, prog, nA) in enumerate(items):
        lines.append(f"  {{ double A[{nA}]; for(int n=0;n<{nA};++n) A[n]=n*0.5+1.0; p{q}(A); for(int n=0;n<{nA};++n) printf(\"{q} %d %a\\n\", n, A[n]); }}")
    lines.append("  return 0; }")
    src = os.path.join(wd, "p.c")
    open(src, "w").write("\n".join(lines) + "\n")
    exe = os.path.join(wd, "p")
    p = subprocess.run(["clang", "-std=c17", "-O0", "-ffp-contract=off", "-fsanitize=undefined,address", "-fno-sanitize-recover=all", "-w", src, "-lm", "-o", exe],
                       capture_output=True, text=True, timeout=600)
    if p.returncode != 0:
        return None, p.stderr[-2000:]
    r = subprocess.run([exe], capture_output=True, text=True, timeout=120)
    out = {}
    for line in r.stdout.splitlines():
        q, n, v = line.split()
        out.setdefault(int(q), {})[int(n)] = float.fromhex(v)
    return out, (r.stderr[-1500:] if r.returncode else "")


# ---------------------------------------------------------------- the worker
def run_case(case):
    import ffcx.codegeneration.lnodes as L
    from ffcx.codegeneration.C.formatter import Formatter as CF
    from ffcx.codegeneration.numba.formatter import Formatter as NF

    from vf import reparse as RP

    rng = np.random.default_rng(case["seed"])
    res = {"evaluations": 0, "counters": {}, "cover": {}, "nontrivial": [], "violations": []}
    cnt = res["counters"]

    def count(k, n=1):
        cnt[k] = cnt.get(k, 0) + n

    seen_mech = {}

    def viol(mech, what, extra=None):
        seen_mech[mech] = seen_mech.get(mech, 0) + 1
        if seen_mech[mech] <= 6:
            res["violations"].append({"mechanism": mech, "what": what, "replay": {"case": case, "extra": extra}})

    kind = case["kind"]
    cm = bool(case.get("complex"))
    dtype = "complex128" if cm else "float64"
    import tempfile

    wd = tempfile.mkdtemp(prefix="c16-", dir=os.environ.get("VF_SCRATCH", "/var/tmp"))
    try:
        if kind in ("triples", "depth3", "random", "overloads"):
            if kind == "triples":
                trees = gen_triples(L, cm, rng)
            elif kind == "depth3":
                trees = gen_depth3(L, rng, case.get("limit", 0))
            elif kind == "overloads":
                trees = gen_overloads(L, rng, case["n"])
            else:
                trees = gen_random(L, rng, case["n"], case.get("maxdepth", 8), cm)
            lo, hi = case.get("slice", [0, len(trees)])
            trees = trees[lo:hi]
            cf, nf = CF(dtype), NF(dtype)
            ctexts, ok_idx = [], []
            for q, (label, t) in enumerate(trees):
                res["evaluations"] += 1
                count("trees")
                canon = RP.from_lnodes(t)
                interp_value.int_typed = False
                expected = interp_value(t, cm)
                # ---------------- C
                try:
                    ctext = cf(t)
                except Exception as e:
                    count("c_format_raises")
                    ctext = None
                tree_ok = False
                if ctext is not None:
                    try:
                        got = RP.parse_c_expr(ctext)
                        count("c_reparsed")
                        tree_ok = RP.canon_equal(canon, got)
                        if not tree_ok:
                            viol(_mech_c(t, L, ctext), f"C text `{ctext[:120]}` parses to a different tree than the AST ({label})", {"ast": str(canon)[:400], "parsed": str(got)[:400]})
                        else:
                            count("c_tree_equal")
                            res["nontrivial"].append(case_hash([kind, cm, label, "c", ctext]))
                    except Exception as e:
                        viol(_mech_c(t, L, ctext), f"C text `{ctext[:120]}` does not parse as the intended expression ({label}): {type(e).__name__}: {str(e)[:80]}")
                    if not isinstance(expected, str) and tree_ok:
                        ctexts.append(ctext)
                        ok_idx.append((q, expected, label))
                # ---------------- numba / Python
                try:
                    ptext = nf(t)
                except Exception:
                    count("py_format_raises")
                    ptext = None
                if ptext is not None:
                    try:
                        gotp = RP.parse_py_expr(ptext)
                        count("py_reparsed")
                        for full in RP.pynames(gotp):
                            mod, _, attr = full.partition(".")
                            if (mod == "np" and not hasattr(np, attr)) or (mod == "math" and not hasattr(math, attr)) or mod not in ("np", "math"):
                                viol("numba-unknown-function:" + full, f"numba text `{ptext[:100]}` calls {full}, which does not exist ({label})")
                        if not RP.canon_equal(canon, RP.strip_pyname(gotp)):
                            viol(_mech_py(t, L, ptext), f"numba text `{ptext[:120]}` parses to a different tree than the AST ({label})",
                                 {"ast": str(canon)[:400], "parsed": str(RP.strip_pyname(gotp))[:400]})
                        else:
                            count("py_tree_equal")
                            res["nontrivial"].append(case_hash([kind, cm, label, "py", ptext]))
                        pv = py_value(ptext, cm)
                        if isinstance(pv, str) and pv.startswith(("syntaxerror", "nameerror")):
                            pass  # already reported by the tree/name monitors
                        elif not isinstance(expected, str) and not isinstance(pv, str):
                            ok = close(pv, expected)
                            count("py_value_checks")
                            if cmath_isnan(complex(pv)) or cmath_isnan(complex(expected)) or (cm and getattr(interp_value, "int_typed", False)):
                                ok = None  # NaN propagation of np.minimum/np.sqrt vs libm is not part of the property
                            if ok is False:
                                viol("numba-value-differs", f"numba text `{ptext[:120]}` evaluates to {pv}, the AST to {expected} ({label})")
                    except SyntaxError as e:
                        viol(_mech_py(t, L, ptext), f"numba text `{ptext[:120]}` is not valid Python ({label}): {str(e)[:60]}")
                    except Exception as e:
                        viol(_mech_py(t, L, ptext), f"numba text `{ptext[:120]}` cannot be re-parsed ({label}): {type(e).__name__}: {str(e)[:80]}")
            # compile all C texts in one batch
            if ctexts:
                vals, err = compile_and_eval_c(ctexts, wd, cm)
                if vals is None:
                    # find offenders one by one is expensive; bisect by compiling individually only for small batches
                    count("c_batch_compile_failed")
                    # bisect to one offender (a correctly re-parsed expression that the C compiler rejects)
                    lo_, hi_ = 0, len(ctexts)
                    while hi_ - lo_ > 1:
                        mid = (lo_ + hi_) // 2
                        v1, e1 = compile_and_eval_c(ctexts[lo_:mid], wd, cm)
                        if v1 is None:
                            hi_ = mid
                        else:
                            lo_ = mid
                    v1, e1 = compile_and_eval_c(ctexts[lo_:hi_], wd, cm)
                    label = ok_idx[lo_][2]
                    viol("c-text-does-not-compile", f"C text `{ctexts[lo_][:120]}` re-parses correctly but does not compile ({label}): {(e1 or err)[-200:]}")
                else:
                    if err:
                        viol("ubsan-report-in-formatted-expression", err[-400:])
                    for n_, (q, expected, label) in enumerate(ok_idx):
                        if n_ in vals:
                            count("c_value_checks")
                            ok = close(vals[n_], expected)
                            if ok is False:
                                viol("c-value-differs", f"compiled C text `{ctexts[n_][:120]}` = {vals[n_]}, AST interpreter = {expected} ({label})")
                            elif ok:
                                count("c_value_ok")
            res["sample"] = {"kind": kind, "label": trees[0][0] if trees else None, "c_text": ctexts[0] if ctexts else None, "n_trees": len(trees)}
            res["cover"]["triple"] = sorted({lab for lab, _ in trees if "<-" in lab})[:4000] if kind == "triples" else []
        elif kind == "programs":
            items = gen_programs(L, rng, case["n"])
            cf, nf = CF("float64"), NF("float64")
            for name, prog, nA in items:
                res["evaluations"] += 1
                canon = RP.from_lnodes(prog)
                text = cf(prog)
                try:
                    got = RP.parse_c_statements(text)
                    count("c_programs_reparsed")
                    if not RP.canon_equal(canon, got, tol=1e-15):
                        viol("c-statement-tree-differs", f"statement text of {name} parses to a different tree", {"ast": str(canon)[:600], "parsed": str(got)[:600], "text": text[:600]})
                    else:
                        count("c_program_tree_equal")
                        res["nontrivial"].append(case_hash([name, case["seed"], "tree"]))
                except Exception as e:
                    viol("c-statement-text-unparsable", f"{name}: {type(e).__name__}: {str(e)[:100]}", {"text": text[:600]})
            out, err = run_progs_c(items, wd, cf)
            if out is None:
                viol("c-statement-text-does-not-compile", err[-300:])
            else:
                if err:
                    viol("sanitizer-report-in-formatted-statements", err[-400:])
                for q, (name, prog, nA) in enumerate(items):
                    exp, nacc = run_prog_interp(prog, nA)
                    count("ast_array_accesses_checked", nacc)
                    gotv = np.array([out.get(q, {}).get(n, np.nan) for n in range(nA)])
                    count("c_program_value_checks")
                    if not np.allclose(gotv, exp, rtol=1e-13, atol=0, equal_nan=True):
                        viol("c-program-value-differs", f"{name}: compiled {gotv[:4]} vs AST interpreter {exp[:4]}")
                    # numba text executed as plain Python
                    ptext = nf(prog)
                    env = {"np": np, "math": math, "A": np.arange(nA) * 0.5 + 1.0}
                    try:
                        exec(compile(ptext, "<numba-prog>", "exec"), env)
                        count("py_program_value_checks")
                        if not np.allclose(env["A"], exp, rtol=1e-13, atol=0, equal_nan=True):
                            viol("numba-program-value-differs", f"{name}: python {env['A'][:4]} vs AST interpreter {exp[:4]}", {"text": ptext[:500]})
                        else:
                            res["nontrivial"].append(case_hash([name, case["seed"], "pyval"]))
                    except Exception as e:
                        viol("numba-program-text-fails", f"{name}: {type(e).__name__}: {str(e)[:100]}", {"text": ptext[:500]})
            res["sample"] = {"kind": "programs", "text": cf(items[0][1])[:700]}
        elif kind == "literals":
            cf64, cf32, nf = CF("float64"), CF("float32"), NF("float64")
            n = case["n"]
            bits = rng.integers(0, 2**63, n, dtype=np.uint64) | (rng.integers(0, 2, n, dtype=np.uint64) << np.uint64(63))
            vals = list(bits.view(np.float64))
            vals += [0.0, -0.0, 1.0, -1.0, 0.1, 1 / 3, 2 / 3, 1e-300, 5e-324, 2.2250738585072014e-308, 1.7976931348623157e308, 1e22, 1e23, 123456789.123456789,
                     0.30000000000000004, 2.0**53, 2.0**53 + 2, 9007199254740993.0, 1e16, 1e15 + 0.5, 4.35, 0.0001, 1e-5]
            vals += [float(x) for x in np.round(rng.uniform(-10, 10, n // 4), 3)]
            vals += [float(2.0 ** int(e)) for e in rng.integers(-1000, 1000, 50)]
            for v in vals:
                if not math.isfinite(v):
                    continue
                res["evaluations"] += 1
                count("literals")
                for name, fmt in (("C", cf64), ("numba", nf)):
                    txt = fmt(L.LiteralFloat(float(v)))
                    try:
                        back = float(txt)
                    except ValueError:
                        viol("literal-text-unreadable", f"{name} literal `{txt}` for {v!r}")
                        continue
                    ulp = math.ulp(v) if v != 0 else 5e-324
                    if abs(back - v) > ulp:
                        viol("literal-off-by-more-than-1ulp", f"{name} literal `{txt}` reads back {back!r}, value {v!r} ({abs(back - v) / ulp:.1f} ulp)")
                    else:
                        count("literal_ok")
                        if back != v:
                            count("literal_inexact_within_1ulp")
                # float32 kernels: the same text read as float
                txt = cf32(L.LiteralFloat(float(v)))
                if abs(v) < 3e38 and abs(v) > 1e-37:
                    b32 = np.float32(float(txt))
                    v32 = np.float32(v)
                    if abs(float(b32) - float(v32)) > float(np.spacing(np.abs(v32))):
                        viol("literal-off-by-more-than-1ulp", f"float32 literal `{txt}` -> {b32!r} vs {v32!r}")
                # complex literal
                z = complex(v, -v / 3 if abs(v) < 1e300 else 1.0)
                if count_pure(res):
                    z = complex(0.0, v)  # purely imaginary literals must be atomic text too
                txt = cf64(L.LiteralFloat(z))
                try:
                    g = RP.parse_c_expr(txt)
                    g2 = RP.parse_c_expr("a / " + txt)
                    if g2[0] != "/" or g2[2] != g:
                        viol("complex-literal-not-atomic", f"complex literal `{txt}` is not atomic: `a / {txt}` parses to {str(g2)[:120]}")
                    if g[0] != "cplx":
                        viol("complex-literal-malformed", f"`{txt}` parses to {str(g)[:100]}")
                    else:
                        count("complex_literal_ok")
                except Exception as e:
                    viol("complex-literal-malformed", f"`{txt}`: {type(e).__name__}: {str(e)[:80]}")
            res.pop("_n", None)
            res["nontrivial"] = [case_hash([case["seed"], q]) for q in range(min(len(vals), 50))]
            res["sample"] = {"kind": "literals", "examples": [[repr(v), cf64(L.LiteralFloat(float(v)))] for v in vals[:5]]}
    finally:
        shutil.rmtree(wd, ignore_errors=True)
    res["cover"]["kind"] = [kind + ("/complex" if cm else "")]
    for m, nseen in seen_mech.items():
        cnt["violations_" + m] = nseen
    res["verdict"] = VIOLATED if res["violations"] else HELD
    if not res["evaluations"]:
        res["evaluations"] = 0
        res["why"] = "empty slice"
    return res


def count_pure(res):
    res["_n"] = res.get("_n", 0) + 1
    return res["_n"] % 3 == 0


def _contains(t, L, pred):
    """Does the tree contain a (parent, child) pair satisfying pred?"""
    stack = [t]
    while stack:
        n = stack.pop()
        kids = []
        for attr in ("arg", "lhs", "rhs", "condition", "true", "false"):
            if hasattr(n, attr):
                kids.append(getattr(n, attr))
        for attr in ("args", "indices", "symbols"):
            if hasattr(n, attr):
                kids += list(getattr(n, attr))
        if isinstance(n, L.MultiIndex):
            kids.append(n.global_index)
        for k in kids:
            if pred(n, k):
                return True
            stack.append(k)
    return False


def _neg_of_negative_literal(L):
    def pred(p, c):
        return isinstance(p, L.Neg) and isinstance(c, (L.LiteralFloat, L.LiteralInt)) and not isinstance(c.value, complex) and c.value < 0
    return pred


def _mech_c(t, L, text):
    if "--" in text and _contains(t, L, _neg_of_negative_literal(L)) or (isinstance(t, L.Neg) and isinstance(t.arg, (L.LiteralFloat, L.LiteralInt)) and not isinstance(t.arg.value, complex) and t.arg.value < 0):
        return "neg-of-negative-literal-prints-decrement"
    if _contains(t, L, lambda p, c: isinstance(c, L.MultiIndex) and not isinstance(p, L.ArrayAccess)):
        return "multiindex-operand-not-parenthesised"
    return "c-tree-differs"


def _mech_py(t, L, text):
    if "!" in text.replace("!=", ""):
        return "numba-not-operator-spelled-!"
    if "--" in text and (_contains(t, L, _neg_of_negative_literal(L)) or isinstance(t, L.Neg)):
        return "numba-neg-of-negative-literal"  # valid python (double negation) but flagged if tree differs
    if _contains(t, L, lambda p, c: isinstance(c, L.MultiIndex) and not isinstance(p, L.ArrayAccess)):
        return "multiindex-operand-not-parenthesised"
    if _contains(t, L, lambda p, c: isinstance(p, (L.EQ, L.NE, L.LT, L.GT, L.LE, L.GE)) and isinstance(c, (L.EQ, L.NE, L.LT, L.GT, L.LE, L.GE))):
        return "numba-comparison-chain"
    return "numba-tree-differs"


def cases_for(tier, s):
    R = []
    # triples are enumerated completely; split into slices for parallelism
    for cm in (False, True):
        for lo in range(0, 5400, 300):
            R.append({"kind": "triples", "complex": cm, "slice": [lo, lo + 300]})
    R.append({"kind": "depth3", "limit": 0 if tier == "thorough" else 900})
    nr = 2000 if tier == "quick" else 40000
    for q in range(8 if tier == "quick" else 80):
        R.append({"kind": "random", "n": nr // (8 if tier == "quick" else 80), "maxdepth": 8, "complex": q % 4 == 3})
    R.append({"kind": "overloads", "n": 600 if tier == "quick" else 6000})
    for q in range(4 if tier == "quick" else 40):
        R.append({"kind": "programs", "n": 12})
    for q in range(2 if tier == "quick" else 20):
        R.append({"kind": "literals", "n": 1000 if tier == "quick" else 2000})
    for i, c in enumerate(R):
        c["seed"] = [s, 16, i]
    return R


def main(tier, replay=None):
    s = seed()
    run = Run(
        PID, tier, "exploration",
        "EXHAUSTIVE (parent, child, operand position) triples over 34 expression node constructors (arithmetic, n-ary, comparisons, logic, conditional, "
        "array access 1-d/2-d, multi-index, 13 math functions) with 3 leaf assignments each (literals of both signs, ints, symbols; also complex literals with "
        "the complex formatter); depth-3 trees over the arithmetic/logic core; seeded random trees up to depth 8; trees built through the overloaded operators; "
        "statement programs (const tables, declarations, sections, nested loops, multi-index stores); 2000+ double literals (random bit patterns, subnormals, "
        "powers of two, decimal-looking, extremes, +-0). Each tree: canonical(AST) == canonical(pycparser(C text)) == canonical(ast(numba text)); compiled C value and "
        "evaluated Python value == AST interpreter value; distinct non-trivial = trees whose re-parsed text matched",
        ["pycparser's C grammar and CPython's ast are the reference parsers", "value comparison at 2e-13 relative (libm vs Python math)",
         "statement kinds the generators never build are not invented", "exhaustive applies to the triple space only"],
    )
    cases = cases_for(tier, s)
    if replay:
        cases = [json.load(open(replay))["replay"]["case"]]
    results = run_pool("c16", cases, per_case_timeout=600, chunk=1, deadline=time.time() + wall_budget(tier, 480, 3000))
    for r in results:
        run.add(r)
    run.extra["exhaustive"] = True
    run.extra["distinct_triples"] = len(run.coverage_sets.get("triple", ()))
    run.require("c_tree_equal", 1000 if not replay else 0)
    run.require("c_value_ok", 500 if not replay else 0)
    run.require("py_tree_equal", 500 if not replay else 0)
    return run.finish()


if __name__ == "__main__":
    main_wrapper(main)
