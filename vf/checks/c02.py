"""C02 — facet and vertex kernels integrate over the indicated local entity.

Every local entity index of the cell is called for every exterior-facet / vertex kernel; interior
facets are called on (f+, f-) pairs with *independent* geometries and data on the two sides
(non-conforming pairs: the kernel contract is still well defined and any +/- swap of w,
coordinate_dofs, entity_local_index, quadrature_permutation or an A block changes the result).
"""

from __future__ import annotations

import time

from vf.checks._values import run_value_case
from vf.common import wall_budget, Run, main_wrapper, run_pool, seed

PID = "C02"
CELLS = ["interval", "triangle", "quadrilateral", "tetrahedron", "hexahedron"]
FACET_TYPES = ("exterior_facet", "interior_facet", "vertex", "ridge")


def run_case(case):
    return run_value_case(case, itype_filter=lambda itype, sid: itype in FACET_TYPES)


def curated(tier):
    R = []

    def add(b, cell, cdeg=1, gdim=None, p=None, **kw):
        r = {"b": b, "cell": cell, "cdeg": cdeg}
        if gdim:
            r["gdim"] = gdim
        if p:
            r["p"] = p
        R.append(dict(recipe=r, **kw))

    for cell in CELLS:
        add("facet_flux", cell, cdeg=2 if cell in ("triangle", "quadrilateral") else 1)
        add("facet_geom", cell)
        add("facet_plain", cell)
        add("dg_jump", cell)
        add("dg_one_sided", cell)
        add("vertex_form", cell)
        add("all_types", cell)
    for cell in ("triangle", "quadrilateral", "tetrahedron"):
        add("dg_jump", cell, p={"vec": True})
        add("dg_jump", cell, p={"degree": 2})
        add("dg_functional", cell)
    for cell in ("triangle", "tetrahedron"):
        add("facet_piola", cell)
        add("facet_piola", cell, p={"family": "N1curl"})
        add("facet_piola", cell, p={"family": "BDM"})
        add("dS_piola", cell)
        add("dS_piola", cell, p={"family": "N1curl"})
    for cell in ("triangle", "hexahedron"):
        add("cond_ties", cell, p={"facets": True}, data_fixed={"w": 0.0, "c": 2.0})
    # every geometric quantity under each restriction
    for cell in ("triangle", "tetrahedron", "quadrilateral", "hexahedron"):
        for side in ("+", "-", "mix"):
            add("geom_all", cell, p={"itype": "interior_facet", "side": side})
        add("geom_all", cell, p={"itype": "exterior_facet"})
    from vf.corpus import ARG_PAIRS, ZOO

    for k, (te, tr) in enumerate(ARG_PAIRS[:4]):
        add("arg_pair", ("triangle", "quadrilateral")[k % 2], p={"test": list(te), "trial": list(tr), "itype": ("exterior_facet", "interior_facet")[k % 2]})

    for k, (cell, fam, deg, var, disc) in enumerate(ZOO):
        if cell == "interval":
            continue
        add("family_zoo", cell, p={"family": fam, "degree": deg, "variant": var, "discontinuous": disc, "itype": ("exterior_facet", "interior_facet")[k % 2]})
    add("int_literals", "triangle")
    add("tensor3", "triangle", p={"shape": [2, 3, 2], "itype": "interior_facet"})
    add("tensor3", "tetrahedron", p={"shape": [1, 3, 2], "itype": "exterior_facet"})
    add("facet_plain", "prism")
    add("facet_plain", "prism", p={"degree": 2})
    # mixed-dimensional forms (functions on the facet mesh), sub-meshes of codimension 0, ridge integrals
    for cell in ("triangle", "quadrilateral", "tetrahedron", "hexahedron"):
        add("mixed_dim_codim1", cell, p={"which": 0})
        add("mixed_dim_codim1", cell, p={"which": 1})
        add("submesh_codim0", cell, p={"which": 1})
        add("ridge_form", cell, p={"which": 0})
        add("ridge_form", cell, p={"which": 1})
    add("facet_flux", "triangle", gdim=3)
    add("dg_jump", "triangle", cdeg=2)
    add("dg_jump", "interval", cdeg=2, gdim=2)
    for st in ("float32", "complex128"):
        add("dg_jump", "triangle", options={"scalar_type": st})
        add("facet_flux", "tetrahedron", options={"scalar_type": st})
    return R


def randoms(n, s):
    out = []
    for i in range(n):
        cell = CELLS[i % len(CELLS)]
        itype = FACET_TYPES[(i // len(CELLS)) % 3]
        if itype == "vertex" and i % 2:
            itype = "interior_facet"
        arity = (i // 3) % 3
        cdeg = 2 if (i % 7 == 3 and cell in ("triangle", "interval", "quadrilateral")) else 1
        opts = {}
        if i % 6 == 4:
            opts = {"scalar_type": ["float32", "complex128", "complex64"][(i // 6) % 3]}
        r = {
            "b": "rand",
            "cell": cell,
            "cdeg": cdeg,
            "p": {"seed": [s, 2, i], "itype": itype, "arity": arity, "with_md": i % 4 == 1, "with_ids": i % 5 == 2,
                  "complex_ok": "complex" in opts.get("scalar_type", "")},
        }
        out.append({"recipe": r, "options": opts, "seed": [s, 201, i]})
    return out


def main(tier, replay=None):
    s = seed()
    run = Run(
        PID,
        tier,
        "exploration",
        "cases = curated + seeded random exterior-facet / interior-facet / vertex forms; every kernel listed "
        "by the descriptor is called for EVERY local entity index of the cell (prism facet kernels for the facets "
        "whose type matches the kernel's domain tag), interior facets on all (or a seeded sample of >12) (f+,f-) "
        "pairs x sampled permutation codes with independent geometry and data per side; distinct non-trivial = "
        "(recipe, integral, entities, perms, geometry class, scalar) with oracle magnitude > 1e-6 and comparison run",
        [
            "UFL symbolic lowering and basix tabulation/quadrature/topology are trusted",
            "oracle's entity maps, reference normals and permutation semantics are written from basix topology/geometry, not from ffcx",
            "prism/pyramid interior facets and facet normals on prisms are rejected by ffcx and are not exercised here",
            "mixed-dimensional forms: only values (no derivatives) of functions living on the facet mesh; they are evaluated at the unpermuted reference-facet points",
        ],
    )
    cases = curated(tier)
    for i, c in enumerate(cases):
        c.setdefault("seed", [s, 200, i])
    cases += randoms(36 if tier == "quick" else 900, s)
    for c in cases:
        c["stage_monitors"] = True
        if tier == "thorough":
            c["entity_limit"] = 40
            c["perm_mode"] = "some"
    if replay:
        import json

        cases = [json.load(open(replay))["replay"]["case"]]
    budget = wall_budget(tier, 420, 3000)
    results = run_pool("c02", cases, per_case_timeout=300, chunk=3, deadline=time.time() + budget)
    for r in results:
        run.add(r)
    run.require("compared_ok_nontrivial", 200 if not replay else 1)
    run.require("table_contract_values_ok", 30 if not replay else 1)
    return run.finish()


if __name__ == "__main__":
    main_wrapper(main)
