"""C03 — interior-facet results do not depend on the cells' local vertex numbering.

Two physical cells sharing a facet are presented to one compiled interior-facet kernel under every local vertex
numbering (cell automorphism) of each cell.  For a numbering pair the harness determines, from geometry alone and with the
oracle's own reading of the documented semantics (N//2 rotations then N%2 reflections), the permutation code pairs that make the
two sides' facet quadrature points coincide physically.  Monitors:
 (i)   metamorphic: the kernel result, mapped to global dof numbering (dofs matched by physical location/component), equals the
       result for the reference numbering, for every coincidence-making code pair;
 (ii)  each sampled result also equals the oracle (a self-consistent but wrong convention is a value mismatch);
 (iii) probe form  int |x(+) - x(-)|^2 dS  evaluated BY THE KERNEL vanishes for the coincidence-making codes and is positive for others;
 (iv)  integrals flagged needs_facet_permutations = false give bitwise identical output for all code pairs.
"""

from __future__ import annotations

import itertools
import json
import time

import numpy as np

import vf.repoenv  # noqa: F401
from vf.common import wall_budget, HELD, INCONCLUSIVE, VIOLATED, Run, case_hash, main_wrapper, run_pool, seed

PID = "C03"


def automorphisms(cellname):
    """Vertex permutations of the reference cell that map edges to edges (all local numberings of the same cell)."""
    import basix

    ct = basix.CellType[cellname]
    topo = basix.topology(ct)
    nv = len(topo[0])
    edges = {frozenset(e) for e in topo[1]} if len(topo) > 1 else set()
    if len(topo) == 2:  # interval
        return [(0, 1), (1, 0)]
    out = []
    for p in itertools.permutations(range(nv)):
        if all(frozenset((p[a], p[b])) in edges for a, b in (tuple(e) for e in topo[1])):
            out.append(p)
    return out


def build_form(kind, c):
    from vf import corpus

    import ufl
    from ufl import Coefficient, TestFunction, TrialFunction, avg, dS, grad, inner, jump

    n = c.n
    x = c.x
    if kind == "mass_jump":
        V = c.V("DG", 1)
        u, v = TrialFunction(V), TestFunction(V)
        return inner(jump(u), jump(v)) * dS, V, None
    if kind == "grad_jump_normal":
        V = c.V("DG", 1)
        u, v = TrialFunction(V), TestFunction(V)
        return inner(jump(grad(u), n), jump(grad(v), n)) * dS + inner(avg(grad(u)), n("+")) * inner(jump(v), 1.0) * dS, V, None
    if kind == "p2_avg":
        V = c.V("DG", 2)
        u, v = TrialFunction(V), TestFunction(V)
        return inner(avg(u), avg(v)) * dS + inner(jump(u), avg(v)) * dS, V, None
    if kind == "vector_dg":
        V = c.V("DG", 1, shape=(c.gdim,))
        u, v = TrialFunction(V), TestFunction(V)
        return inner(jump(u), jump(v)) * dS + inner(u("+"), n("+")) * inner(v("-"), n("-")) * dS, V, None
    if kind == "coef_one_side":
        V = c.V("DG", 1)
        u, v = TrialFunction(V), TestFunction(V)
        f = Coefficient(V)
        return f("-") * inner(u("+"), v("-")) * dS + f("+") * f("-") * inner(u("-"), v("-")) * dS, V, f
    if kind == "x_weight":
        V = c.V("DG", 1)
        u, v = TrialFunction(V), TestFunction(V)
        return (1 + x[0]("+") * x[c.gdim - 1]("-")) * inner(jump(u), jump(v)) * dS + ufl.sin(x[0]("+")) * inner(u("+"), v("+")) * dS, V, None
    if kind == "dg0":  # tables do not depend on the points: needs_facet_permutations may still be true; used for the flag monitor
        V = c.V("DG", 0)
        u, v = TrialFunction(V), TestFunction(V)
        return inner(jump(u), jump(v)) * dS, V, None
    if kind in ("two_rules_a", "two_rules_b"):
        # two quadrature rules in one interior-facet integral: one couples '+' and '-', the other is one-sided
        V = c.V("DG", 1)
        u, v = TrialFunction(V), TestFunction(V)
        hi, lo = (2, 1) if kind == "two_rules_a" else (4, 2)
        t1 = inner(jump(u), jump(v)) * dS(metadata={"quadrature_degree": hi})
        t2 = inner(u("+"), v("+")) * dS(metadata={"quadrature_degree": lo})
        return (t1 + t2 if kind == "two_rules_a" else t2 + t1), V, None
    if kind in ("gll_rule", "custom_unsorted", "custom_nonsym", "vertex_rule", "custom_diag"):
        # rules whose points are not stored in ascending order / are not symmetric: the permuted tables cannot be obtained from the
        # unpermuted ones by re-ordering assumptions
        V = c.V("DG", 1)
        u, v = TrialFunction(V), TestFunction(V)
        if kind == "gll_rule":
            md = {"quadrature_rule": "GLL", "quadrature_degree": 3}
        elif kind == "vertex_rule":
            md = {"quadrature_rule": "vertex", "quadrature_degree": 1}
        else:
            md = corpus.custom_rule(c.cell, "interior_facet", {"custom_unsorted": "unsorted_symmetric", "custom_diag": "diagonal"}.get(kind, "nonsymmetric"))
        wgt = 1 + x[0]("+") * x[c.gdim - 1]("-")
        return wgt * inner(jump(u), jump(v)) * dS(metadata=md) + ufl.sin(x[0]("+")) * inner(u("+"), v("-")) * dS(metadata=md), V, None
    if kind == "one_restriction":
        V = c.V("DG", 1)
        u, v = TrialFunction(V), TestFunction(V)
        return inner(u("+"), v("+")) * dS, V, None
    raise ValueError(kind)


def run_case(case):
    import basix
    import ufl

    from vf import corpus
    from vf import harness as H
    from vf import oracle as O

    cellname, kind = case["cell"], case["form"]
    rng = np.random.default_rng(case["seed"])
    res = {"evaluations": 0, "counters": {}, "cover": {}, "nontrivial": [], "violations": []}
    cnt = res["counters"]

    def count(k, n=1):
        cnt[k] = cnt.get(k, 0) + n

    def viol(mech, what, extra=None):
        if sum(1 for v in res["violations"] if v["mechanism"] == mech) < 6:
            res["violations"].append({"mechanism": mech, "what": f"{cellname}/{kind}: {what}", "replay": {"case": case, "extra": extra}})
        count("violations_" + mech)

    c = corpus.Ctx(cellname)
    form, V, coef = build_form(kind, c)
    # probe form through the kernel itself
    R0 = c.space(basix.ufl.real_element(cellname, ())) if False else None
    xp, xm = c.x("+"), c.x("-")
    probe = ufl.inner(xp - xm, xp - xm) * ufl.dS
    try:
        comp = H.jit_forms([form, probe])
    except Exception as e:
        return {"verdict": INCONCLUSIVE, "why": f"compile failed: {type(e).__name__}: {str(e)[:100]}"}
    ffi = comp.ffi
    itg = comp.objs[0].form_integrals[0]
    pitg = comp.objs[1].form_integrals[0]
    needs = bool(itg.needs_facet_permutations)
    ct = basix.CellType[cellname]
    topo = basix.topology(ct)
    td = len(topo) - 1
    refv = np.asarray(basix.geometry(ct))
    nv = refv.shape[0]
    el = V.ufl_element()
    ndof = el.dim
    bs = getattr(el, "block_size", 1) if type(el).__name__ == "_BlockedElement" else 1
    scal = el._sub_element if bs > 1 else el
    Xdof = np.asarray(scal.basix_element.points)  # reference dof points (scalar element)
    # ---- physical configuration in the reference numbering: K+ = A(ref), K- = A(ref reflected/shifted across facet)
    B, b = H.random_affine(rng, td, td, allow_reflect=False)
    if cellname in ("interval", "triangle", "tetrahedron"):
        # shared facet = facet 0 of K+ (opposite to vertex 0); K- has the same facet vertices and a mirrored apex
        fverts = list(topo[td - 1][0])
        Pp = refv.copy()
        apex = [v for v in range(nv) if v not in fverts][0]
        Pm = refv.copy()
        cen = refv[fverts].mean(axis=0)
        Pm[apex] = cen + (cen - refv[apex]) * 0.8 + (0.1 if td > 1 else 0.0)
    else:
        Pp = refv.copy()
        Pm = refv.copy()
        Pm[:, 0] = 2.0 - refv[:, 0]  # mirror across x0 = 1: shared facet is {x0 = 1}
    physP, physM = Pp @ B.T + b, Pm @ B.T + b
    ce = c.ce
    cscal = ce._sub_element

    def geom_map(xd, X):
        t = cscal.basix_element.tabulate(0, X)[0, :, :, 0]
        return t @ xd

    shared = [tuple(np.round(p, 9)) for p in physP if any(np.allclose(p, q) for q in physM)]
    if len(shared) != len(topo[td - 1][0]):
        return {"verdict": INCONCLUSIVE, "why": f"construction error: {len(shared)} shared vertices"}
    shared_set = set(shared)
    autos = automorphisms(cellname)
    count("numberings_per_cell", len(autos))

    def side(phys, sigma):
        xd = phys[list(sigma)]  # local vertex i sits at reference-numbering vertex sigma[i]
        f = None
        for fi, fv in enumerate(topo[td - 1]):
            if {tuple(np.round(xd[v], 9)) for v in fv} == shared_set:
                f = fi
        xd3 = np.zeros((nv, 3))
        xd3[:, :td] = xd
        return xd, xd3, f

    # generic (asymmetric) facet reference points for the coincidence test
    fct = O.facet_celltype(cellname, 0)
    Xf = {0: np.zeros((1, 0)), 1: np.array([[0.21], [0.63]]), 2: np.array([[0.17, 0.31], [0.52, 0.23], [0.11, 0.64]])}[td - 1]
    nperm = O.num_facet_perms(fct)

    def valid_codes(xdp, fp, xdm, fm):
        out = []
        for pp in range(nperm):
            xa = geom_map(xdp, O.map_entity_points(cellname, td - 1, fp, O.permute_facet_points(fct, Xf, pp)))
            for pm in range(nperm):
                xb = geom_map(xdm, O.map_entity_points(cellname, td - 1, fm, O.permute_facet_points(fct, Xf, pm)))
                if np.allclose(xa, xb, atol=1e-10):
                    out.append((pp, pm))
        return out

    def dof_locations(xd):
        return geom_map(xd, Xdof)

    # physical coefficient g(x): interpolate at dof points (Lagrange-type dofs)
    gcoef = rng.uniform(-1, 1, td + 1)

    def g(x):
        return gcoef[0] + x @ gcoef[1:] + 0.3 * x[:, 0] ** 2

    def global_map(loc, ref_loc):
        m = []
        for p in loc:
            d = np.linalg.norm(ref_loc - p, axis=1)
            j = int(np.argmin(d))
            if d[j] > 1e-8:
                return None
            m.append(j)
        return m

    ident = tuple(range(nv))
    xdp0, xdp03, fp0 = side(physP, ident)
    xdm0, xdm03, fm0 = side(physM, ident)
    refP, refM = dof_locations(xdp0), dof_locations(xdm0)
    A_ref = None
    orc = O.FormOracle(form)
    pairs = list(itertools.product(range(len(autos)), repeat=2))
    limit = case.get("pairs")
    if limit and len(pairs) > limit:
        idx = rng.permutation(len(pairs))[:limit]
        pairs = [(0, 0)] + [pairs[i] for i in sorted(idx)]
    res["cover"]["exhaustive_pairs"] = [str(not limit or len(pairs) >= len(autos) ** 2)]
    n_oracle = 0
    probe_pos = 0
    for ia, ib in pairs:
        sp, sm = autos[ia], autos[ib]
        xdp, xdp3, fp = side(physP, sp)
        xdm, xdm3, fm = side(physM, sm)
        if fp is None or fm is None:
            viol("harness-construction", "shared facet not found for a numbering")
            continue
        codes = valid_codes(xdp, fp, xdm, fm)
        count("numbering_pairs")
        if len(codes) != nperm:
            viol("coincidence-codes-unexpected", f"numbering pair {sp},{sm}: {len(codes)} coincidence-making code pairs, expected {nperm}")
            continue
        gp, gm = global_map(dof_locations(xdp), refP), global_map(dof_locations(xdm), refM)
        if gp is None or gm is None:
            viol("harness-construction", "dof locations do not match the reference numbering")
            continue
        # macro dof map: local (side, node, comp) -> global index in the reference numbering
        gmap = np.array([bs * j + cidx for j in gp for cidx in range(bs)] + [ndof + bs * j + cidx for j in gm for cidx in range(bs)])
        x = np.ascontiguousarray(np.concatenate([xdp3, xdm3]))
        if coef is not None:
            w = np.concatenate([g(dof_locations(xdp)), g(dof_locations(xdm))])
        else:
            w = np.zeros(0)
        ent = np.array([fp, fm], dtype=np.intc)
        allc = list(itertools.product(range(nperm), repeat=2))
        use_codes = codes if (case.get("all_codes", True) or len(codes) <= 2) else [codes[int(i)] for i in rng.permutation(len(codes))[:2]]
        first_bits = None
        for (pp, pm) in (allc if not needs else use_codes):
            perm = np.array([pp, pm], dtype=np.uint8)
            A = np.zeros((2 * ndof, 2 * ndof))
            H.call_kernel(ffi, itg, "float64", A, np.ascontiguousarray(w), np.zeros(0), x, ent, perm)
            res["evaluations"] += 1
            count("kernel_calls")
            if not needs:
                # (iv) flag monitor: every code pair must give identical bits
                if first_bits is None:
                    first_bits = A.copy()
                elif A.tobytes() != first_bits.tobytes():
                    # the same quadrature points visited in another order: only the rounding of the sum may differ
                    dev = float(np.max(np.abs(A - first_bits))) / max(float(np.max(np.abs(first_bits))), 1e-300)
                    if dev > 1e-12:
                        viol("needs-facet-permutations-false-but-output-depends-on-codes", f"numbering {sp},{sm}: output changes by {dev:.2e} (relative) with the permutation argument ({pp},{pm})")
                    else:
                        count("flag_monitor_rounding_level_differences")
                count("flag_monitor_checks")
                if (pp, pm) not in codes:
                    continue
            Ag = np.zeros_like(A)
            Ag[np.ix_(gmap, gmap)] = A
            if A_ref is None:
                A_ref = Ag
                scale = max(float(np.max(np.abs(A_ref))), 1e-300)
                if scale < 1e-9:
                    return {"verdict": INCONCLUSIVE, "why": "reference tensor is (numerically) zero"}
            err = float(np.max(np.abs(Ag - A_ref))) / scale
            count("metamorphic_checks")
            if kind in ("custom_nonsym", "custom_diag"):
                # a rule that is not symmetric under the facet's reflections/rotations is a DIFFERENT (equally valid) rule in a
                # numbering that sees the facet mirrored: the two numberings need not agree beyond the quadrature error.
                # Here only the oracle (same numbering, same codes) decides, on every call.
                count("metamorphic_skipped_nonsymmetric_rule")
            elif err > 1e-11:
                viol("result-depends-on-local-numbering", f"numbering + {sp} (facet {fp}), - {sm} (facet {fm}), codes ({pp},{pm}): result in global numbering differs from the reference numbering by {err:.3e}")
            else:
                count("metamorphic_ok")
            # (ii) oracle on a sample
            if (kind in ("custom_nonsym", "custom_diag") and n_oracle < 60) or (n_oracle < case.get("oracle_samples", 12) and rng.random() < 0.3):
                n_oracle += 1
                data = {"x": {"+": xdp3, "-": xdm3}, "w": {}, "c": {}}
                if coef is not None:
                    data["w"][coef] = {"+": g(dof_locations(xdp)), "-": g(dof_locations(xdm))}
                try:
                    R, S, _ = orc.tensor("interior_facet", -1, data, (fp, fm), (pp, pm))
                    e2, bnd, st = H.compare(A, R, S, "float64", getattr(comp, "table_delta", 0.0), ops=32, floor=0.1)
                    if st == "bad":
                        viol("value-mismatch", f"numbering {sp},{sm} codes ({pp},{pm}): kernel differs from the oracle by {e2:.3e}")
                    elif st == "ok":
                        count("oracle_ok")
                except O.Unsupported:
                    count("oracle_unsupported")
        # (iii) probe through the kernel: zero for coincidence codes, positive for some other code
        Pv = np.zeros(1)
        pp, pm = codes[0]
        H.call_kernel(ffi, pitg, "float64", Pv, np.zeros(0), np.zeros(0), x, ent, np.array([pp, pm], dtype=np.uint8))
        count("probe_checks")
        hsize = float(np.linalg.norm(B)) ** 2
        if abs(Pv[0]) > 1e-20 * max(1.0, hsize) and abs(Pv[0]) > 1e-22:
            if abs(Pv[0]) > 1e-18:
                viol("kernel-points-do-not-coincide-for-geometric-codes", f"numbering {sp},{sm}: codes ({pp},{pm}) make the points coincide by the documented semantics, but the kernel's own int|x+ - x-|^2 = {Pv[0]:.3e}")
        if nperm > 1:
            other = [cd for cd in allc if cd not in codes][0]
            Pv2 = np.zeros(1)
            H.call_kernel(ffi, pitg, "float64", Pv2, np.zeros(0), np.zeros(0), x, ent, np.array(other, dtype=np.uint8))
            if Pv2[0] > 1e-8:
                probe_pos += 1
        if not res["violations"]:
            res["nontrivial"].append(case_hash([cellname, kind, sp, sm]))
    count("probe_discriminating", probe_pos)
    res["cover"]["cell_form"] = [f"{cellname}/{kind}/needs_perm={needs}"]
    res["sample"] = {"cell": cellname, "form": kind, "needs_facet_permutations": needs, "numberings_per_cell": len(autos), "numbering_pairs": len(pairs),
                     "codes_per_pair": nperm, "example_pair": [list(autos[pairs[-1][0]]), list(autos[pairs[-1][1]])]}
    decided = cnt.get("metamorphic_ok", 0) or (kind in ("custom_nonsym", "custom_diag") and cnt.get("oracle_ok", 0))
    res["verdict"] = VIOLATED if res["violations"] else (HELD if decided else INCONCLUSIVE)
    if res["verdict"] == INCONCLUSIVE:
        res["why"] = "no metamorphic comparison ran"
    return res


def cases_for(tier, s):
    R = []
    forms = ["mass_jump", "grad_jump_normal", "p2_avg", "vector_dg", "coef_one_side", "x_weight", "dg0", "one_restriction", "two_rules_a", "two_rules_b"]
    plan = {"interval": None, "triangle": None, "quadrilateral": None, "tetrahedron": 64 if tier == "quick" else None, "hexahedron": 40 if tier == "quick" else 600}
    for cell, limit in plan.items():
        for fk in forms:
            if cell == "interval" and fk in ("vector_dg",):
                continue
            if tier == "quick" and cell in ("tetrahedron", "hexahedron") and fk in ("p2_avg", "vector_dg", "x_weight", "dg0"):
                continue
            R.append({"cell": cell, "form": fk, "pairs": limit, "all_codes": cell not in ("hexahedron",) or tier == "thorough", "oracle_samples": 8 if tier == "quick" else 30})
        # non-default rules on the facet (GLL: interval/quadrilateral facets only; vertex scheme; user-supplied point sets)
        for fk in ("gll_rule", "custom_unsorted", "custom_nonsym", "vertex_rule", "custom_diag"):
            if cell == "interval" or (fk == "gll_rule" and cell == "tetrahedron") or (fk == "custom_diag" and cell not in ("tetrahedron", "hexahedron")):
                continue
            lim = limit if cell not in ("tetrahedron", "hexahedron") else (24 if tier == "quick" else 200)
            R.append({"cell": cell, "form": fk, "pairs": lim, "all_codes": cell not in ("hexahedron",) or tier == "thorough", "oracle_samples": 6 if tier == "quick" else 20})
    for i, c in enumerate(R):
        c["seed"] = [s, 3, i]
    return R


def main(tier, replay=None):
    s = seed()
    run = Run(
        PID, tier, "exploration",
        "for each (cell, form) one interior-facet kernel is compiled and called for numbering pairs of two physical cells sharing a facet: interval 2x2, triangle 6x6=36, "
        "quadrilateral 8x8=64 (EXHAUSTIVE), tetrahedron 24x24=576 and hexahedron 48x48=2304 (seeded samples of 64/40 pairs in quick; all 576 tetrahedron pairs and 600 hexahedron "
        "pairs in thorough) x all coincidence-making permutation code pairs (2/6/8 per numbering pair, found from geometry with the documented semantics) x 10 forms (mass jump, "
        "gradient jump with normals, P2 avg, vector DG, coefficient on one side, x-dependent weight, DG0, single restriction, two rules in one integral in both orders); results are mapped to global dof numbering by "
        "physical dof location and compared with the reference numbering (1e-11), sampled against the oracle; the kernel's own int|x+ - x-|^2 probe must vanish for those "
        "codes; kernels with needs_facet_permutations=false must be bitwise independent of the codes; distinct non-trivial = numbering pairs checked clean",
        ["the rotation/reflection convention is ffcx's documentation as read by the oracle; agreement with the code in DOLFINx that computes the codes cannot be observed here",
         "dofs are matched by physical location (Lagrange/DG point-evaluation dofs)", "affine cells (random non-degenerate affine image)"],
    )
    cases = cases_for(tier, s)
    if replay:
        cases = [json.load(open(replay))["replay"]["case"]]
    results = run_pool("c03", cases, per_case_timeout=900, chunk=1, deadline=time.time() + wall_budget(tier, 480, 3000))
    for r in results:
        run.add(r)
    run.require("metamorphic_ok", 1000 if not replay else 1)
    run.require("probe_discriminating", 50 if not replay else 0)
    return run.finish()


if __name__ == "__main__":
    main_wrapper(main)
