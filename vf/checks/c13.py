"""C13 — JIT signatures are stable across processes and separate different inputs.

Names are observed through the real jit.compile_forms / compile_expressions entry points (aborted right before the C
compiler by a wrapper on jit._compile_objects), in fresh processes.
 stable : same request under PYTHONHASHSEED / history / creation-order variants -> identical module and object names
 pair   : near-miss request pairs; if the generated kernels (normalised text) differ, module names must differ
 names  : all object names of a module are distinct valid C identifiers
"""

from __future__ import annotations

import json
import os
import re
import subprocess
import time

from vf.common import wall_budget, HELD, INCONCLUSIVE, PY, VIOLATED, Run, case_hash, main_wrapper, run_pool, seed

PID = "C13"
IDENT = re.compile(r"^[A-Za-z_][A-Za-z0-9_]*$")


def gen(case, hashseed=0):
    env = dict(os.environ)
    env["PYTHONHASHSEED"] = str(hashseed)
    p = subprocess.run([PY, "-m", "vf.c13_gen", json.dumps(case)], capture_output=True, text=True, env=env, timeout=300,
                       cwd=os.environ.get("VF_SCRATCH", "/var/tmp"))
    for line in p.stdout.splitlines():
        if line.startswith("C13GEN"):
            return json.loads(line[6:]), None
    return None, (p.stderr or p.stdout)[-500:]


def run_case(case):
    res = {"evaluations": 0, "counters": {}, "cover": {}, "nontrivial": [], "violations": []}
    cnt = res["counters"]

    def count(k, n=1):
        cnt[k] = cnt.get(k, 0) + n

    def viol(mech, what, extra=None):
        res["violations"].append({"mechanism": mech, "what": what, "replay": {"case": case, "extra": extra}})

    kind = case["kind"]
    if kind == "stable":
        base, err = gen({"requests": [case["request"]], "history": "none"}, 0)
        if base is None or "error" in base[0]:
            return {"verdict": INCONCLUSIVE, "why": "baseline failed: " + str(err or base)[:200]}
        b0 = base[0]
        res["evaluations"] += 1
        # name monitor
        names = (b0.get("name_list") or [])
        count("name_monitor_modules")
        bad = [n for n in names + [b0["module"]] + b0["objects"] if not IDENT.match(n or "")]
        if bad:
            viol("invalid-identifier", f"{case['request']}: invalid C identifiers {bad[:3]}")
        if len(set(names)) != len(names):
            dup = sorted({n for n in names if names.count(n) > 1})
            viol("duplicate-object-name-in-module", f"{case['request']}: object names defined more than once in one module: {dup[:3]}")
        if len(set(b0["objects"])) != len(b0["objects"]):
            viol("duplicate-object-name-in-module", f"{case['request']}: JIT object names not distinct: {b0['objects']}")
        for hs, hist, reqmod in case["variants"]:
            req = dict(case["request"], **reqmod)
            out, err = gen({"requests": [req], "history": hist, "k": 25 if hist == "churn" else 3 + (hash(str(hs)) % 3)}, hs)
            res["evaluations"] += 1
            if out is None or "error" in out[0]:
                count("variant_failed")
                continue
            count("stability_checks")
            if out[0]["module"] != b0["module"] or out[0]["objects"] != b0["objects"]:
                viol("name-unstable", f"{case['request']}: names differ under PYTHONHASHSEED={hs} history={hist} mod={reqmod}: {out[0]['module']} vs {b0['module']}")
            else:
                count("stable_ok")
                res["nontrivial"].append(case_hash([case["request"], str(hs), hist, reqmod]))
        res["sample"] = {"kind": "stable", "request": case["request"], "module": b0["module"], "objects": b0["objects"][:2], "variants": case["variants"][:3]}
    elif kind == "pair":
        out, err = gen({"requests": [case["a"], case["b"]], "history": "none"}, 0)
        res["evaluations"] += 1
        if out is None or any("error" in o for o in out):
            return {"verdict": INCONCLUSIVE, "why": "pair generation failed: " + str(err or out)[:200]}
        A, B = out
        differ = A["digest"] != B["digest"]
        same_name = A["module"] == B["module"]
        count("pair_checks")
        if differ:
            count("pairs_with_different_kernels")
        if case.get("expect") == "same" and not same_name:
            viol("name-unstable", f"requests equal up to renumbering/creation order get different module names: {case['a']} vs {case['b']}")
        elif differ and same_name:
            viol(case.get("mech", "different-kernels-share-module-name"),
                 f"requests generate different kernels but share module name {A['module']}: {case['a']} vs {case['b']} ({case.get('what', '')})")
        else:
            count("pair_ok")
            res["nontrivial"].append(case_hash([case["a"], case["b"]]))
        # compile flags / options must separate even if the kernels are textually equal
        if case.get("expect") == "differ" and same_name:
            viol("options-or-flags-not-in-signature", f"requests with different {case.get('what')} share module name {A['module']}")
        res["sample"] = {"kind": "pair", "a": case["a"], "b": case["b"], "kernels_differ": differ, "modules": [A["module"], B["module"]], "what": case.get("what")}
    res["cover"]["kind"] = [kind + ":" + str(case.get("what", ""))]
    if res["violations"]:
        res["verdict"] = VIOLATED
    elif cnt.get("stable_ok", 0) + cnt.get("pair_ok", 0) == 0:
        res["verdict"] = INCONCLUSIVE
        res["why"] = "nothing compared"
    else:
        res["verdict"] = HELD
    return res


def cases_for(tier, s):
    from vf.checks import c01, c02, c04

    R = []
    pool = [c["recipe"] for c in (c01.curated(tier)[::6] + c02.curated(tier)[::5] + c04.cases_for("quick", s)[::7])]
    pool += [{"b": "all_types", "cell": "triangle"}, {"b": "dispatch", "cell": "triangle", "p": {"seed": [s, 13, 1], "nint": 5, "nforms": 2}},
             {"b": "nearmiss", "cell": "triangle"}, {"b": "nearmiss", "cell": "triangle", "p": {"kind": "expr"}},
             {"b": "rand_expr", "cell": "tetrahedron", "p": {"seed": [s, 13, 2], "nexpr": 3}},
             {"b": "expr_two_meshes", "cell": "triangle", "p": {"which": 0}}, {"b": "expr_two_meshes", "cell": "tetrahedron", "p": {"which": 2}}]
    pool = pool[-2:] + pool[:-2]
    if tier == "quick":
        pool = pool[:22]
    for i, r in enumerate(pool):
        variants = [(1 + i % 3, "none", {}), ("random", "objs", {}), (0, "compiled", {}), (0, "churn", {}), (2, "hostile", {})]
        if tier == "thorough":
            variants += [(2, "objs", {}), (3, "compiled", {}), ("random", "none", {})]
        opts = {"scalar_type": ["float64", "float32", "complex128"][i % 3]} if r["b"] in ("mass", "stiff_nl", "nearmiss", "expr_suite") else {}
        req = {"recipe": r, "options": opts}
        if i % 2 == 0:  # several extra compiler flags (they are part of the signature), as real callers pass
            req["compile_args"] = ["-O1", "-g0", "-fno-math-errno"]
        R.append({"kind": "stable", "request": req, "variants": variants})
    # creation order / renumbering invariance
    for cell in ("triangle", "tetrahedron"):
        for knd in ("form", "expr"):
            a = {"recipe": {"b": "nearmiss", "cell": cell, "p": {"kind": knd}}}
            b = {"recipe": {"b": "nearmiss", "cell": cell, "p": {"kind": knd, "swap_creation": True, "which_coef": 1}}}
            R.append({"kind": "pair", "a": a, "b": b, "expect": "same", "what": "coefficient creation order"})
    # near misses that must separate
    def nm(cell, knd, **kw):
        return {"recipe": {"b": "nearmiss", "cell": cell, "p": dict(kind=knd, **kw)}}
    for cell in ("triangle", "tetrahedron") if tier == "quick" else ("interval", "triangle", "quadrilateral", "tetrahedron", "hexahedron"):
        for knd in ("form", "expr"):
            base = nm(cell, knd)
            R.append({"kind": "pair", "a": base, "b": nm(cell, knd, literal=1.5000001), "what": "literal"})
            if cell != "interval":
                R.append({"kind": "pair", "a": base, "b": nm(cell, knd, index=1), "what": "component index"})
            R.append({"kind": "pair", "a": base, "b": nm(cell, knd, which_coef=1), "what": "coefficient identity"})
            R.append({"kind": "pair", "a": base, "b": nm(cell, knd, degree=2), "what": "element degree"})
            R.append({"kind": "pair", "a": base, "b": nm(cell, knd, power=3), "what": "power"})
            for st in ("float32", "complex128"):
                R.append({"kind": "pair", "a": base, "b": dict(base, options={"scalar_type": st}), "what": "scalar type", "expect": "differ"})
            R.append({"kind": "pair", "a": base, "b": dict(base, options={"table_rtol": 1e-3}), "what": "option table_rtol", "expect": "differ"})
            R.append({"kind": "pair", "a": base, "b": dict(base, options={"epsilon": 1e-10}), "what": "option epsilon", "expect": "differ"})
            R.append({"kind": "pair", "a": base, "b": dict(base, compile_args=["-O3"]), "what": "compiler flags", "expect": "differ"})
            R.append({"kind": "pair", "a": base, "b": dict(base, cffi_debug=True), "what": "cffi_debug", "expect": "differ"})
            # more single-feature differences (the digest of the generated kernels decides whether they must separate)
            R.append({"kind": "pair", "a": base, "b": nm(cell, knd, family="DG"), "what": "element family"})
            R.append({"kind": "pair", "a": nm(cell, knd, degree=3, variant="gll_warped"), "b": nm(cell, knd, degree=3, variant="equispaced"), "what": "lagrange variant"})
            R.append({"kind": "pair", "a": nm(cell, knd, const_shape=[2, 3], const_index=1), "b": nm(cell, knd, const_shape=[3, 2], const_index=1), "what": "constant shape"})
            R.append({"kind": "pair", "a": nm(cell, knd, const_shape=[2, 3], const_index=1), "b": nm(cell, knd, const_shape=[2, 3], const_index=3), "what": "constant entry"})
            R.append({"kind": "pair", "a": base, "b": {"recipe": dict(base["recipe"], cdeg=2)}, "what": "geometry degree"})
            if cell in ("interval", "triangle"):
                R.append({"kind": "pair", "a": base, "b": {"recipe": dict(base["recipe"], gdim=3)}, "what": "geometric dimension"})
            if knd == "form":
                R.append({"kind": "pair", "a": nm(cell, knd, qdeg=2), "b": nm(cell, knd, qdeg=3), "what": "quadrature degree"})
                R.append({"kind": "pair", "a": nm(cell, knd, qdeg=1), "b": nm(cell, knd, qdeg=1, scheme="vertex"), "what": "quadrature scheme"})
                R.append({"kind": "pair", "a": nm(cell, knd, sid=1), "b": nm(cell, knd, sid=2), "what": "subdomain id"})
                R.append({"kind": "pair", "a": nm(cell, knd, sid=1), "b": nm(cell, knd, sid=[1, 2]), "what": "subdomain id tuple"})
                if cell != "interval":
                    R.append({"kind": "pair", "a": nm(cell, knd, itype="exterior_facet"), "b": nm(cell, knd, itype="interior_facet"), "what": "integral type"})
                    R.append({"kind": "pair", "a": nm(cell, knd, itype="interior_facet"), "b": nm(cell, knd, itype="interior_facet", conj_side=True), "what": "restriction of the test function"})
            else:
                R.append({"kind": "pair", "a": base, "b": nm(cell, knd, npts=4), "what": "number of points"})
        e = nm(cell, "expr")
        for how, mech in (("eps10", "points-repr-truncation"), ("eps6", None), ("f32", None), ("order", None), ("fewer", None)):
            R.append({"kind": "pair", "a": e, "b": dict(e, points=how), "what": "points " + how, "mech": mech or "different-kernels-share-module-name"})
        R.append({"kind": "pair", "a": dict(e, points="big"), "b": dict(e, points="big_mid"), "what": "points differ in the middle of a >1000-element array", "mech": "points-repr-truncation"})
        R.append({"kind": "stable", "request": dict(e, duplicate=True), "variants": [(1, "none", {})]})
    R.append({"kind": "pair", "a": {"recipe": {"b": "dispatch", "cell": "triangle", "p": {"seed": [1, 13, 5], "nint": 3, "nforms": 2}}},
              "b": {"recipe": {"b": "dispatch", "cell": "triangle", "p": {"seed": [1, 13, 5], "nint": 3, "nforms": 2}}, "reverse": True}, "what": "order of forms in the request"})
    R.append({"kind": "pair", "a": {"recipe": {"b": "tp_mass_stiff", "cell": "quadrilateral", "tpmesh": True, "p": {"degree": 1}}},
              "b": {"recipe": {"b": "tp_mass_stiff", "cell": "quadrilateral", "tpmesh": True, "p": {"degree": 1}}, "options": {"sum_factorization": True}}, "what": "option sum_factorization", "expect": "differ"})
    R.append({"kind": "pair", "a": {"recipe": {"b": "mass", "cell": "triangle"}}, "b": {"recipe": {"b": "mass", "cell": "triangle"}, "options": {"part": "diagonal"}}, "what": "option part", "expect": "differ"})
    for i, c in enumerate(R):
        c["seed"] = [s, 1300, i]
    return R


def main(tier, replay=None):
    s = seed()
    run = Run(
        PID, tier, "exploration",
        "stable: requests from the C01/C02/C04 corpora (forms, several forms per module, expressions) named in fresh processes under PYTHONHASHSEED {0..3,random} x "
        "history {none, unrelated objects, other compiles} -> identical module/object names; renumbering (creation order) invariance; "
        "pair: near-miss request pairs differing in one literal / component index / coefficient identity / element degree / power / evaluation points (1e-10, 1e-6, "
        "dtype, order, count, inside the elided middle of a >1000-element array) / scalar type / options / compiler flags / order of forms: whenever the "
        "generated kernels differ (normalised text digest) or options/flags differ, the module names must differ; name monitor: object names distinct valid identifiers; "
        "distinct non-trivial = stability comparisons and pairs decided",
        ["names observed via jit.compile_* aborted before the C compiler (real code path up to the compiler launch)",
         "'different kernels' is decided on the normalised generated text of the two requests (embedded hashes and comments removed)",
         "inputs nobody generated are outside what can be observed"],
    )
    cases = cases_for(tier, s)
    if replay:
        cases = [json.load(open(replay))["replay"]["case"]]
    results = run_pool("c13", cases, per_case_timeout=600, chunk=3, deadline=time.time() + wall_budget(tier, 420, 2400))
    for r in results:
        run.add(r)
    run.require("stable_ok", 40 if not replay else 0)
    run.require("pairs_with_different_kernels", 30 if not replay else 0)
    return run.finish()


if __name__ == "__main__":
    main_wrapper(main)
