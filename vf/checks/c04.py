"""C04 — expression kernels evaluate the expression at the given points; the descriptor
describes exactly the layout the kernel uses.

The harness packs w / c / A extents *only from the descriptor* (as an assembler would):
a descriptor/kernel disagreement becomes a value mismatch.
"""

from __future__ import annotations

import time

import numpy as np

import vf.repoenv  # noqa: F401
from vf.common import wall_budget, HELD, INCONCLUSIVE, VIOLATED, Run, case_hash, main_wrapper, run_pool, seed

PID = "C04"
CELLS = ["interval", "triangle", "quadrilateral", "tetrahedron", "hexahedron"]


def run_case(case):
    import ufl

    from vf import corpus
    from vf import harness as H
    from vf import oracle as O

    recipe = case["recipe"]
    options = dict(case.get("options") or {})
    scalar = options.get("scalar_type", "float64")
    dt, rdt, _, _ = H.SCALARS[scalar]
    cmode = "complex" in scalar
    rng = np.random.default_rng(case.get("seed", [0]))
    res = {"evaluations": 0, "counters": {}, "cover": {}, "nontrivial": [], "violations": []}
    cnt = res["counters"]

    def count(k, n=1):
        cnt[k] = cnt.get(k, 0) + n

    def viol(mech, what, extra=None):
        res["violations"].append({"mechanism": mech, "what": what, "replay": {"case": case, "extra": extra}})

    b = corpus.build(recipe)
    exprs = b.expressions
    try:
        comp = H.jit_expressions(exprs, options)
    except Exception as e:
        return {"verdict": INCONCLUSIVE, "why": f"ffcx did not compile: {type(e).__name__}: {str(e)[:160]}"}
    ffi = comp.ffi
    cellname = recipe["cell"]
    td = O.tdim_of(cellname)
    sample = None
    for (expr, pts), ce in zip(exprs, comp.objs):
        d = H.read_expression(ffi, ce)
        count("expressions")
        orc = O.ExpressionOracle(expr, pts, complex_mode=cmode)
        # ---- descriptor vs the request
        pts = np.asarray(pts, dtype=float)
        if d["num_points"] != pts.shape[0]:
            viol("descriptor", f"num_points {d['num_points']} != {pts.shape[0]}")
        if d["entity_dimension"] != pts.shape[1]:
            viol("descriptor", f"entity_dimension {d['entity_dimension']} != {pts.shape[1]}")
        npt = min(d["num_points"], pts.shape[0])
        got_pts = np.array([ce.points[i] for i in range(npt * pts.shape[1])]).reshape(npt, pts.shape[1])
        if not np.array_equal(got_pts, pts[:npt]):
            viol("descriptor", "descriptor points differ from the requested points")
        sh = tuple(expr.ufl_shape)
        if d["num_components"] != len(sh):
            viol("descriptor", f"num_components {d['num_components']} != len(value_shape) {len(sh)}")
        vs = tuple(ce.value_shape[i] for i in range(min(d["num_components"], 8))) if ce.value_shape != ffi.NULL else ()
        if vs != sh[: len(vs)] or (len(vs) != len(sh) and d["num_components"] == len(sh)):
            viol("descriptor", f"value_shape {vs} != {sh}")
        if d["rank"] != len(orc.arguments):
            viol("descriptor", f"rank {d['rank']} != {len(orc.arguments)}")
        dom = orc.domain
        if dom is not None and d["coordinate_element_hash"] != dom.ufl_coordinate_element().basix_hash():
            viol("descriptor", "coordinate_element_hash differs from basix_hash of the mesh's coordinate element")
        ocs = orc.coefficients
        pos = d["original_coefficient_positions"]
        if sorted(pos) != pos or len(set(pos)) != len(pos) or any(p < 0 or p >= len(ocs) for p in pos):
            viol("descriptor", f"original_coefficient_positions {pos} not an increasing subset of 0..{len(ocs) - 1}")
            continue
        if d["num_constants"] != len(orc.constants):
            viol("descriptor", f"num_constants {d['num_constants']} != {len(orc.constants)}")
        if len(d["coefficient_names"]) != d["num_coefficients"] or len(set(d["coefficient_names"])) != len(d["coefficient_names"]):
            viol("descriptor", f"coefficient_names {d['coefficient_names']}")
        count("descriptor_checks")
        # ---- values
        ncomp = int(np.prod(sh)) if sh else 1
        nd = orc.arguments[0].ufl_function_space().ufl_element().dim if orc.arguments else 1
        if dom is None:
            # coordinate-free expression: ffcx needs a cell from somewhere; skip geometry
            count("coordinate_free")
            continue
        cel = dom.ufl_coordinate_element()
        facet = pts.shape[1] == td - 1
        nent = O.num_entities(cellname, td - 1) if facet else 1
        for gk in case.get("geom") or (("affine", "nonaffine") if (recipe.get("cdeg", 1) > 1 or cellname in ("quadrilateral", "hexahedron")) else ("affine",)):
            data = H.make_data(rng, cel, ocs, orc.constants, False, cmode, gk)
            w, _ = H.pack_w(ocs, pos, data, False, dt)
            c = H.pack_c(orc.constants, data, dt)
            x = H.pack_x(data, False, rdt)
            from vf.valuecheck import _cast_data

            cdata = _cast_data(data, dt, rdt)
            for ent in range(nent):
                nperm = H.facet_perm_count(cellname, ent) if facet else 1
                for pc in range(nperm):
                    A0 = (rng.uniform(-1, 1, (pts.shape[0], ncomp, nd)) + (1j * rng.uniform(-1, 1, (pts.shape[0], ncomp, nd)) if cmode else 0)).astype(dt)
                    A = A0.copy()
                    e_arr = np.array([ent], dtype=np.intc) if facet else None
                    p_arr = np.array([pc], dtype=np.uint8) if facet else None
                    H.call_kernel(ffi, ce, scalar, A, w, c, x, e_arr, p_arr)
                    res["evaluations"] += 1
                    count("kernel_calls")
                    wide = np.complex128 if cmode else np.float64
                    T = A.astype(wide) - A0.astype(wide)
                    try:
                        R = orc.tensor(cellname, cdata, ent, pc)
                    except O.Unsupported as ex:
                        count("oracle_unsupported")
                        res.setdefault("unsup", str(ex)[:100])
                        continue
                    S = np.abs(R) + np.abs(A0) + 1e-300
                    scale = max(float(np.max(np.abs(R))), float(np.max(np.abs(A0))), 1e-300)
                    err, bound, status = H.compare(T, R, np.full(R.shape, scale), scalar, getattr(comp, "table_delta", 0.0), ops=4)
                    if status == "degenerate":
                        count("degenerate_reference")
                        continue
                    if status == "ok":
                        count("compared_ok")
                        if np.max(np.abs(R)) > 1e-6:
                            count("compared_ok_nontrivial")
                            res["nontrivial"].append(case_hash([recipe, str(expr)[:80], ent, pc, gk, scalar]))
                            if sample is None:
                                sample = {"recipe": recipe, "expr": str(expr)[:200], "shape": list(sh), "rank": d["rank"],
                                          "points": pts[:3].tolist(), "entity": ent, "perm": pc, "err_rel": err,
                                          "A_first": np.ravel(T)[:4].tolist(), "descriptor": {k: v for k, v in d.items() if k != "has"}}
                    else:
                        viol("value-mismatch", f"expression {str(expr)[:120]} on {cellname} shape={sh} rank={d['rank']} "
                             f"entity={ent} perm={pc} geom={gk} {scalar}: err={err:.3e} > {bound:.1e}",
                             {"K": np.ravel(T)[:16].tolist(), "R": np.ravel(R)[:16].tolist()})
        res["cover"].setdefault("oracle_nodes", [])
        res["cover"]["oracle_nodes"] = sorted(set(res["cover"]["oracle_nodes"]) | orc.nodes_seen)
        res["cover"].setdefault("shape_rank", []).append(f"{sh}|rank{d['rank']}|{'facet' if facet else 'cell'}pts")
    res["cover"]["cell"] = [cellname]
    res["cover"]["builder"] = [recipe["b"] + ":" + str(recipe.get("p", {}).get("which", ""))]
    res["sample"] = sample
    if res["violations"]:
        res["verdict"] = VIOLATED
    elif cnt.get("compared_ok", 0) == 0:
        res["verdict"] = INCONCLUSIVE
        res["why"] = "no kernel call compared " + res.get("unsup", "")
    else:
        res["verdict"] = HELD
    return res


def cases_for(tier, s):
    R = []

    def add(b, cell, cdeg=1, gdim=None, p=None, **kw):
        r = {"b": b, "cell": cell, "cdeg": cdeg}
        if gdim:
            r["gdim"] = gdim
        if p:
            r["p"] = p
        R.append(dict(recipe=r, **kw))

    whiches = ["rank1_vector", "rank0_tensor", "rank1_tensor", "rank0_scalar", "rank0_vector_x", "rank0_const", "rank0_jac", "rank1_scalar"]
    for cell in ("triangle", "tetrahedron", "quadrilateral") if tier == "quick" else CELLS:
        for wh in whiches:
            add("expr_suite", cell, cdeg=2 if cell in ("triangle", "quadrilateral") else 1, p={"which": wh})
    for cell in ("tetrahedron", "hexahedron"):
        for pk in ("diagonal", "axis", "one_point"):
            add("expr_facet", cell, p={"which": ["x", "rank1_u", "flux"][("diagonal", "axis", "one_point").index(pk)], "pts_kind": pk})
    for wh in range(5):
        add("expr_dropped", ["triangle", "quadrilateral", "tetrahedron", "interval", "hexahedron"][wh], p={"which": wh})
    add("expr_suite", "triangle", p={"which": "rank1_vector", "pts": "vertices"})
    add("expr_suite", "tetrahedron", p={"which": "rank0_tensor", "pts": "lagrange2"})
    add("expr_suite", "hexahedron", p={"which": "rank0_scalar", "pts": "interior", "npts": 1})
    add("expr_suite", "triangle", p={"which": "rank0_scalar", "pts": "interior", "npts": 40})
    add("expr_suite", "triangle", gdim=3, p={"which": "rank0_vector_x"})
    for cell in CELLS[1:]:
        for wh in ("normal", "flux", "x", "rank1_u", "rank1_flux", "rank1_grad"):
            add("expr_facet", cell, p={"which": wh})
    for st in ("float32", "complex128", "complex64"):
        add("expr_suite", "triangle", cdeg=2, p={"which": "rank1_scalar"}, options={"scalar_type": st})
        add("expr_suite", "tetrahedron", p={"which": "rank0_tensor"}, options={"scalar_type": st})
    n = 40 if tier == "quick" else 800
    shapes = ["scalar", "vector", "tensor"]
    for i in range(n):
        cell = CELLS[i % 5]
        opts = {}
        if i % 6 == 4:
            opts = {"scalar_type": ["float32", "complex128", "complex64"][(i // 6) % 3]}
        facet = (i % 7 == 2) and cell != "interval"
        add("rand_expr", cell, cdeg=2 if (i % 5 == 1 and cell in ("triangle", "quadrilateral", "interval")) else 1,
            p={"seed": [s, 4, i], "rank": (i // 5) % 2, "shape": shapes[(i // 10) % 3], "npts": 1 + (i % 6), "facet": facet,
               "nexpr": 1 + (i % 3 == 0), "complex_ok": "complex" in opts.get("scalar_type", "")}, options=opts)
    for i, c in enumerate(R):
        c["seed"] = [s, 400, i]
    return R


def main(tier, replay=None):
    s = seed()
    run = Run(
        PID, tier, "exploration",
        "cases = curated expressions (rank 0/1; value shapes (), (n,), (n,n); P2/N1curl/vector coefficients; tensor constants; "
        "cell points incl. vertices/Lagrange nodes/1 point/40 points; facet points for ALL facets x ALL permutation codes) + seeded "
        "random expressions, several per module; w/c/A are packed from descriptor fields only; distinct non-trivial = "
        "(recipe, expression, entity, perm, geometry class, scalar) with max|reference| > 1e-6 and comparison run",
        ["UFL lowering and basix tabulation are trusted", "oracle evaluates the ORIGINAL expression with its own lowering flags",
         "descriptor semantics are those documented in ufcx.h (num_components = length of value_shape)"],
    )
    cases = cases_for(tier, s)
    if replay:
        import json

        cases = [json.load(open(replay))["replay"]["case"]]
    results = run_pool("c04", cases, per_case_timeout=240, chunk=3, deadline=time.time() + wall_budget(tier, 420, 2400))
    for r in results:
        run.add(r)
    run.require("compared_ok_nontrivial", 60 if not replay else 1)
    run.require("descriptor_checks", 40 if not replay else 1)
    return run.finish()


if __name__ == "__main__":
    main_wrapper(main)
