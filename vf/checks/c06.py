"""C06 — the form descriptor dispatches each (type, subdomain id) to the right kernel.

Monitors: (a) structural invariants of form_integral_offsets / ids read from the cffi struct;
(b) for every (type, id) the user declared, the kernels listed under it, applied one after
another (for mixed-facet cells: the one whose `domain` tag matches the facet), add exactly the sum of
the user's integrands for that id -- the grouping of the ORIGINAL integrals is done by this
harness (each original integral lowered alone), not by ffcx or UFL's integral-data builder;
(c) metadata fields vs the form; (d) contract on ffcx.codegeneration.common.integral_data while compiling.
"""

from __future__ import annotations

import time

import numpy as np

import vf.repoenv  # noqa: F401
from vf.common import wall_budget, HELD, INCONCLUSIVE, VIOLATED, Run, case_hash, main_wrapper, run_pool, seed

PID = "C06"
CELLS = ["interval", "triangle", "quadrilateral", "tetrahedron", "hexahedron", "prism"]
ITYPES = ("cell", "exterior_facet", "interior_facet", "vertex", "ridge")


def declared_keys(form):
    keys = {}
    for itg in form.integrals():
        sid = itg.subdomain_id()
        sids = sid if isinstance(sid, tuple) else (sid,)
        for s in sids:
            k = (itg.integral_type(), -1 if s in ("everywhere", "otherwise") else int(s))
            keys.setdefault(k, []).append(itg)
    return keys


class IntegralDataContract:
    """Post-condition on ffcx.codegeneration.common.integral_data (DESIGN 2.5)."""

    def __init__(self):
        self.evals = 0
        self.violations = []

    def __enter__(self):
        import ffcx.codegeneration.C.form as cform
        import ffcx.codegeneration.common as common

        from vf.monitors import Patch

        self.p = Patch()
        orig = common.integral_data
        me = self

        def wrapped(ir):
            out = orig(ir)
            me.evals += 1
            try:
                me.check(ir, out)
            except Exception as e:
                me.violations.append(f"contract raised {type(e).__name__}: {e}")
            return out

        self.p.set(common, "integral_data", wrapped)
        for mod in (cform,):
            if getattr(mod, "integral_data", None) is orig:
                self.p.set(mod, "integral_data", wrapped)
        try:
            import ffcx.codegeneration.numba.form as nform

            if getattr(nform, "integral_data", None) is orig:
                self.p.set(nform, "integral_data", wrapped)
        except Exception:
            pass
        return self

    def __exit__(self, *a):
        self.p.restore()

    def check(self, ir, out):
        offs = list(out.offsets)
        if len(offs) != 6 or offs[0] != 0 or any(b < a for a, b in zip(offs, offs[1:])):
            self.violations.append(f"offsets {offs} not 6 monotone values from 0")
            return
        if not (len(out.names) == len(out.ids) == len(out.domains)):
            self.violations.append("names/ids/domains not aligned")
            return
        # expand to kernels
        kern = [(n, i, d) for n, i, ds in zip(out.names, out.ids, out.domains) for d in ds]
        if offs[5] != len(kern):
            self.violations.append(f"offsets[-1]={offs[5]} but {len(kern)} kernels are listed")
        pos = 0
        for t, name in enumerate(ITYPES):
            want = sum(len(d) for d in ir.integral_domains[name])
            if offs[t + 1] - offs[t] != want:
                self.violations.append(
                    f"group {name}: offsets give {offs[t + 1] - offs[t]} kernels, the form has {want} (offsets {offs})")
            grp = kern[pos: pos + want]
            pos += want
            ids = [i for _, i, _ in grp]
            if ids != sorted(ids):
                self.violations.append(f"group {name}: ids {ids} not non-decreasing")
            if sorted(n for n, _, _ in grp) != sorted(n for n, ds in zip(ir.integral_names[name], ir.integral_domains[name]) for _ in ds):
                self.violations.append(f"group {name}: kernel names differ from the form's integrals of that type")


def run_case(case):
    import basix
    import ufl

    from vf import corpus
    from vf import harness as H
    from vf import oracle as O
    from vf.valuecheck import _cast_data, facet_kernel_matches_entity

    recipe = case["recipe"]
    options = dict(case.get("options") or {})
    scalar = options.get("scalar_type", "float64")
    dt, rdt, _, _ = H.SCALARS[scalar]
    cmode = "complex" in scalar
    wide = np.complex128 if cmode else np.float64
    rng = np.random.default_rng(case.get("seed", [0]))
    res = {"evaluations": 0, "counters": {}, "cover": {}, "nontrivial": [], "violations": []}
    cnt = res["counters"]

    def count(k, n=1):
        cnt[k] = cnt.get(k, 0) + n

    def viol(mech, what, extra=None):
        res["violations"].append({"mechanism": mech, "what": what, "replay": {"case": case, "extra": extra}})

    b = corpus.build(recipe)
    contract = IntegralDataContract()
    try:
        with contract:
            comp = H.jit_forms(b.forms, options)
    except Exception as e:
        return {"verdict": INCONCLUSIVE, "why": f"ffcx did not compile: {type(e).__name__}: {str(e)[:160]}"}
    count("integral_data_contract_evals", contract.evals)
    for v in contract.violations:
        mech = "offsets-multi-domain-group" if ("offsets" in v and recipe["cell"] in ("prism", "pyramid")) else "integral-data-contract"
        viol(mech, "integral_data contract: " + v)
    ffi = comp.ffi
    cellname = recipe["cell"]
    ct = O.celltype(cellname)
    td = O.tdim_of(cellname)
    sample = None
    for fi, (uf, cf) in enumerate(zip(b.forms, comp.objs)):
        desc = H.read_form(ffi, cf)
        offs = desc["offsets"]
        count("forms")
        # ---- (a) structure
        struct_ok = True
        if offs[0] != 0 or any(y < x for x, y in zip(offs, offs[1:])) or offs[5] > 10000:
            viol("offsets-structure", f"form_integral_offsets {offs} not monotone from 0")
            struct_ok = False
        keys = declared_keys(uf)
        # the same id may be listed several times (e.g. ds(1) + ds((1,3))): the property only asks that the
        # kernels under (type,id), applied one after another, give the sum.  So: set equality of ids per type.
        mech_off = "offsets-multi-domain-group" if cellname in ("prism", "pyramid") else "offsets-structure"
        entries = H.integral_entries(ffi, cf, desc) if struct_ok else []
        for t, name in enumerate(ITYPES):
            ids = desc["ids"][offs[t]: offs[t + 1]] if struct_ok else []
            if ids != sorted(ids):
                viol("ids-order", f"{name} ids {ids} not non-decreasing")
            want = sorted({i for (tt, i) in keys if tt == name})
            if struct_ok and sorted(set(ids)) != want:
                viol(mech_off, f"{name}: descriptor lists ids {ids}, the form declares {want} (offsets {offs})")
                struct_ok = False
        count("structure_checks")
        # ---- (c) metadata
        orc_full = O.FormOracle(uf, complex_mode=cmode)
        args = orc_full.arguments
        if desc["rank"] != len(args):
            viol("metadata", f"rank {desc['rank']} != {len(args)}")
        red = orc_full.reduced_coefficients
        if desc["num_coefficients"] != len(red):
            viol("metadata", f"num_coefficients {desc['num_coefficients']} != {len(red)}")
        ocs = orc_full.original_coefficients
        want_pos = [ocs.index(c) for c in red]
        if desc["original_coefficient_positions"] != want_pos:
            viol("metadata", f"original_coefficient_positions {desc['original_coefficient_positions']} != {want_pos}")
        consts = orc_full.constants
        if desc["num_constants"] != len(consts) or desc["constant_ranks"] != [len(c.ufl_shape) for c in consts] or desc["constant_shapes"] != [list(c.ufl_shape) for c in consts]:
            viol("metadata", f"constants: {desc['num_constants']} {desc['constant_ranks']} {desc['constant_shapes']}")
        if len(set(desc["coefficient_names"])) != len(red) or len(set(desc["constant_names"])) != len(consts):
            viol("metadata", f"name maps {desc['coefficient_names']} {desc['constant_names']}")
        want_h = [a.ufl_function_space().ufl_element().basix_hash() for a in args] + [c.ufl_function_space().ufl_element().basix_hash() for c in red]
        if desc["finite_element_hashes"] != [int(h) for h in want_h]:
            viol("metadata", "finite_element_hashes differ from basix_hash() of argument+coefficient elements")
        if desc["signature"] != uf.signature():
            viol("metadata", "signature differs from form.signature()")
        ceh = orc_full.coord_element.basix_hash()
        for (t, i, k, itg) in entries:
            idesc = H.read_integral(ffi, itg, desc["num_coefficients"])
            if idesc["coordinate_element_hash"] != ceh:
                viol("metadata", f"integral {t}/{i}: coordinate_element_hash")
            dom = idesc["domain"]
            if t == "cell" and dom != int(ct):
                viol("metadata", f"cell integral id {i}: domain tag {dom} != {int(ct)}")
            if t in ("exterior_facet", "interior_facet") and dom not in [int(x) for x in basix.cell.subentity_types(ct)[td - 1]]:
                viol("metadata", f"{t} id {i}: domain tag {dom} is not a facet type of {cellname}")
            if t == "vertex" and dom != int(basix.CellType.point):
                viol("metadata", f"vertex integral id {i}: domain tag {dom} != point")
            if not idesc["has"][scalar]:
                viol("metadata", f"integral {t}/{i}: kernel pointer for {scalar} is NULL")
        count("metadata_checks")
        if not struct_ok:
            continue
        # ---- (b) values per declared key, with the harness' own grouping of the original integrals
        suborc = {}
        for (t, i), itgs in sorted(keys.items()):
            interior = t == "interior_facet"
            data = H.make_data(rng, orc_full.coord_element, ocs, consts, interior, cmode, "affine")
            w, _ = H.pack_w(ocs, desc["original_coefficient_positions"], data, interior, dt)
            c = H.pack_c(consts, data, dt)
            x = H.pack_x(data, interior, rdt)
            cdata = _cast_data(data, dt, rdt)
            edim, nent = orc_full.entity_info(t)
            shape = orc_full.tensor_shape(t) or (1,)
            kernels = [(k, itg) for (tt, ii, k, itg) in entries if tt == t and ii == i]
            if not kernels:
                viol("dispatch-missing", f"no kernel listed under ({t}, {i})")
                continue
            ent_list = [(0, 0)] if t == "cell" else [(e, (e * 7 + 1) % nent) for e in range(nent)]
            for ents in ent_list:
                perms = (0, 0)
                if interior and td > 1:
                    perms = (int(rng.integers(H.facet_perm_count(cellname, ents[0]))), int(rng.integers(H.facet_perm_count(cellname, ents[1]))))
                if interior and O.facet_celltype(cellname, ents[0]) != O.facet_celltype(cellname, ents[1]):
                    continue
                A = np.zeros(shape, dtype=dt)
                ncalled = 0
                for k, itg in kernels:
                    dom = int(itg.domain)
                    if t in ("exterior_facet", "interior_facet") and not facet_kernel_matches_entity(cellname, t, dom, ents[0]):
                        continue
                    ent = None if t == "cell" else np.array(ents if interior else ents[:1], dtype=np.intc)
                    perm = None if t == "cell" else np.array(perms if interior else perms[:1], dtype=np.uint8)
                    H.call_kernel(ffi, itg, scalar, A, w, c, x, ent, perm)
                    ncalled += 1
                    count("kernel_calls")
                res["evaluations"] += 1
                if ncalled < 1:
                    viol("dispatch-multiplicity", f"({t},{i}) entity {ents}: no listed kernel applies to this facet type")
                    continue
                if ncalled > 1:
                    count("keys_with_several_kernels")
                R = np.zeros(shape, dtype=wide)
                S = np.zeros(shape)
                try:
                    for itg_u in itgs:
                        so = suborc.get(id(itg_u))
                        if so is None:
                            so = suborc[id(itg_u)] = O.FormOracle(ufl.Form([itg_u]), complex_mode=cmode)
                        # the sub-form's only key(s): evaluate under the id we are dispatching
                        sid_sub = i
                        r, s_, _ = so.tensor(t, sid_sub, cdata, ents, perms)
                        R += r.reshape(shape)
                        S += s_.reshape(shape)
                except O.Unsupported as ex:
                    count("oracle_unsupported")
                    continue
                err, bound, status = H.compare(A.astype(wide), R, S, scalar, getattr(comp, "table_delta", 0.0), ops=16, floor=0.1)
                if status == "ok":
                    count("compared_ok")
                    if np.max(S) > 1e-6:
                        count("compared_ok_nontrivial")
                        res["nontrivial"].append(case_hash([recipe, fi, t, i, ents, scalar]))
                        if sample is None:
                            sample = {"recipe": recipe, "declared": [[k[0], k[1], len(v)] for k, v in sorted(keys.items())],
                                      "offsets": offs, "ids": desc["ids"], "key": [t, i], "entities": list(ents), "err_rel": err}
                elif status != "degenerate":
                    viol("dispatch-value", f"{cellname} form {fi} ({t}, id {i}) entities {ents}: sum of listed kernels differs from the sum of "
                         f"the {len(itgs)} integrands declared for that id: err={err:.3e} > {bound:.1e}; offsets={offs} ids={desc['ids']}")
        res["cover"].setdefault("types_present", []).append("+".join(sorted({k[0] for k in keys})))
        res["cover"].setdefault("nkeys", []).append(str(len(keys)))
    res["cover"]["cell"] = [cellname]
    res["sample"] = sample
    if res["violations"]:
        res["verdict"] = VIOLATED
    elif cnt.get("compared_ok", 0) == 0:
        res["verdict"] = INCONCLUSIVE
        res["why"] = "no dispatch comparison ran"
    else:
        res["verdict"] = HELD
    return res


def cases_for(tier, s):
    R = []
    n = 48 if tier == "quick" else 600
    for i in range(n):
        cell = CELLS[i % len(CELLS)]
        types = ["cell", "exterior_facet", "interior_facet", "vertex"]
        if cell == "prism":
            types = ["cell", "exterior_facet", "vertex"]
        if i % 5 == 0:
            types = types[:2]
        opts = {}
        if i % 9 == 4:
            opts = {"scalar_type": ["float32", "complex128"][(i // 9) % 2]}
        r = {"b": "dispatch", "cell": cell,
             "p": {"seed": [s, 6, i], "nint": 2 + (i % 7), "types": types, "arity": (i // 6) % 3, "nforms": 1 + (i % 4 == 3),
                   "degree": 1 + (i % 2 if cell not in ("hexahedron", "prism") else 0)}}
        R.append({"recipe": r, "options": opts, "seed": [s, 600, i]})
    # hand-written: multi-domain group followed by another type (prism: two facet kernels per id)
    for cell in ("prism", "triangle"):
        R.append({"recipe": {"b": "facet_plain", "cell": cell}, "seed": [s, 601, 0]})
        R.append({"recipe": {"b": "all_types", "cell": cell}, "seed": [s, 601, 1]} if cell != "prism" else
                 {"recipe": {"b": "dispatch", "cell": "prism", "p": {"seed": [s, 6, 999], "nint": 6, "types": ["exterior_facet", "vertex"], "arity": 2}}, "seed": [s, 601, 2]})
    # the same integrand declared twice under one id (metadata differing only formally): it counts twice
    k = 0
    for how in ("explicit_equals_estimated", "scheme_default", "degree0_1", "three"):
        for it, sid in (("cell", None), ("cell", 1), ("exterior_facet", 2), ("interior_facet", None)):
            cell = ["triangle", "tetrahedron", "quadrilateral", "interval"][k % 4]
            k += 1
            if cell == "interval" and it != "cell":
                cell = "triangle"
            if tier == "quick" and k % 2:
                continue
            R.append({"recipe": {"b": "same_integrand_twice", "cell": cell, "p": {"how": how, "itype": it, "sid": sid}}, "seed": [s, 602, k]})
    return R


def main(tier, replay=None):
    s = seed()
    run = Run(
        PID, tier, "exploration",
        "cases = seeded forms with 2..8 integrals over random types (cell/exterior/interior facet/vertex), subdomain ids "
        "(everywhere, ints from {0,1,2,3,7,10^6} in random creation order, tuples), the same id repeated with different quadrature "
        "degree, 1-2 forms per module, on interval..hexahedron and prism (two facet kernels per id); per declared (type,id) the listed "
        "kernels are applied for every local entity and compared with the sum of the user's integrands (harness' own grouping, "
        "each original integral lowered alone); distinct non-trivial = (recipe, form, type, id, entity, scalar) compared with magnitude > 1e-6",
        ["every integral carries an explicit quadrature degree, so the reference does not depend on UFL's merging of integrals",
         "UFL lowering / basix trusted", "domain tag semantics: cell type for cell integrals, facet type for facet integrals, point for vertex integrals"],
    )
    cases = cases_for(tier, s)
    if replay:
        import json

        cases = [json.load(open(replay))["replay"]["case"]]
    results = run_pool("c06", cases, per_case_timeout=240, chunk=3, deadline=time.time() + wall_budget(tier, 420, 2400))
    for r in results:
        run.add(r)
    run.require("compared_ok_nontrivial", 100 if not replay else 1)
    run.require("integral_data_contract_evals", 20 if not replay else 1)
    return run.finish()


if __name__ == "__main__":
    main_wrapper(main)
