"""C20 — the command-line compiler emits a self-consistent header/source pair.

`python -m ffcx` is run in throw-away directories (fresh process, so the functools.cache of option files is per run):
 file    : outputs exist; <stem>.c compiles stand-alone (gcc -std=c17 -c -Wall) against ufcx.h; every object declared extern in
           <stem>.h is defined in the object (nm); the aliases form_<prefix>_<name> / expression_<prefix>_<name> exist for exactly the
           named objects; kernels reached THROUGH THE ALIASES (generic driver, gcc -O2, guard pages) are bitwise equal to the JIT
           path's source for the same objects built with the same flags, and agree with the oracle;
 numba   : `--language numba` writes <stem>_numba.py that is valid Python with the aliases;
 options : for every option, all 2^3 subsets of {command line, $PWD/ffcx_options.json, $XDG_CONFIG_HOME/ffcx/ffcx_options.json} with
           distinct values: the effective value (header comment + kernel scalar type) must follow CLI > PWD > XDG > default.
"""

from __future__ import annotations

import itertools
import json
import os
import re
import shutil
import subprocess
import tempfile
import time

import numpy as np

import vf.repoenv  # noqa: F401
from vf.common import wall_budget, HELD, INCONCLUSIVE, PY, VIOLATED, Run, case_hash, main_wrapper, run_pool, seed

PID = "C20"

UFL_FILES = {
    "poisson_all": '''
import basix.ufl
from ufl import *
e = basix.ufl.element("Lagrange", "{cell}", {deg})
mesh = Mesh(basix.ufl.element("Lagrange", "{cell}", 1, shape=({gdim},)))
V = FunctionSpace(mesh, e)
u, v = TrialFunction(V), TestFunction(V)
f = Coefficient(V)
k = Constant(mesh)
a = k * inner(grad(u), grad(v)) * dx + f * inner(u, v) * dx
L = inner(f, v) * dx + k * inner(f, v) * dx(1)
M = f * f * dx
mass = inner(u, v) * dx
forms = [a, L, M, mass]
pts = [[{p0}], [{p1}]]
gradf = grad(f)
expressions = [(gradf, pts), (k * f, pts)]
elements = [e]
''',
    "default_names": '''
import basix.ufl
from ufl import *
element = basix.ufl.element("Lagrange", "{cell}", {deg})
mesh = Mesh(basix.ufl.element("Lagrange", "{cell}", 1, shape=({gdim},)))
V = FunctionSpace(mesh, element)
u, v = TrialFunction(V), TestFunction(V)
g = Coefficient(V)
a = (1 + g * g) * inner(grad(u), grad(v)) * dx
L = exp(0.2 * g) * inner(g, v) * dx
''',
    "vector_mixed": '''
import basix.ufl
from ufl import *
P2 = basix.ufl.element("Lagrange", "{cell}", 2, shape=({gdim},))
P1 = basix.ufl.element("Lagrange", "{cell}", 1)
TH = basix.ufl.mixed_element([P2, P1])
mesh = Mesh(basix.ufl.element("Lagrange", "{cell}", 1, shape=({gdim},)))
W = FunctionSpace(mesh, TH)
(u, p) = TrialFunctions(W)
(v, q) = TestFunctions(W)
nu = Constant(mesh)
a = nu * inner(grad(u), grad(v)) * dx - inner(p, div(v)) * dx + inner(div(u), q) * dx
w = Coefficient(W)
F = inner(w, TestFunction(W)) * dx
forms = [a, F]
''',
}


def run_ffcx(args, cwd, env_extra=None, timeout=600):
    env = dict(os.environ)
    env.update(env_extra or {})
    env["PYTHONPATH"] = vf.repoenv.REPO + os.pathsep + env.get("PYTHONPATH", "")
    p = subprocess.run([PY, "-m", "ffcx"] + list(args), cwd=cwd, env=env, capture_output=True, text=True, timeout=timeout)
    return p.returncode, (p.stdout + p.stderr)[-2500:]


def effective_options(header_text):
    """Options printed in the generated file's header comment."""
    m = re.search(r"generated with the following options:\s*\n//\s*\n((?://[^\n]*\n)+)", header_text)
    if not m:
        return None
    body = "\n".join(ln[2:].strip() for ln in m.group(1).splitlines())
    body = re.sub(r"<class '([\w.]+)'>", r"'\1'", body)
    try:
        import ast

        return ast.literal_eval(body)
    except Exception:
        return {"_raw": body}


def run_case(case):
    from vf import execs as E
    from vf import harness as H
    from vf import oracle as O

    kind = case["kind"]
    res = {"evaluations": 0, "counters": {}, "cover": {}, "nontrivial": [], "violations": []}
    cnt = res["counters"]

    def count(k, n=1):
        cnt[k] = cnt.get(k, 0) + n

    def viol(mech, what, extra=None):
        if sum(1 for v in res["violations"] if v["mechanism"] == mech) < 6:
            res["violations"].append({"mechanism": mech, "what": what, "replay": {"case": case, "extra": extra}})

    wd = tempfile.mkdtemp(prefix="c20-", dir=os.environ.get("VF_SCRATCH", "/var/tmp"))
    xdg = os.path.join(wd, "xdg")
    os.makedirs(os.path.join(xdg, "ffcx"))
    try:
        if kind in ("file", "numba"):
            work = os.path.join(wd, "work")
            os.makedirs(work)
            if case.get("demo"):
                src_path = os.path.join(vf.repoenv.REPO, "demo", case["demo"])
                stem_file = os.path.splitext(case["demo"])[0]
                shutil.copy(src_path, os.path.join(work, case["demo"]))
                fname = case["demo"]
            else:
                fname = case.get("filename", "forms-v1.py")
                text = UFL_FILES[case["template"]].format(**case["params"])
                open(os.path.join(work, fname), "w").write(text)
                stem_file = os.path.splitext(fname)[0]
            sanitized = re.sub(r"[^A-Za-z0-9_]+", "_", stem_file)
            args = []
            prefix, stem, outdir = sanitized, sanitized, work
            style = case.get("style", "positional")
            if style == "positional":
                args = [fname]
            elif style == "input_out_ns":
                prefix, stem = "myns", "outfile1"
                args = ["-i", fname, "-o", stem, "-n", prefix]
            elif style == "input_out":  # -o without -n: the namespace still defaults to the stem of the UFL file
                stem = "outfile2"
                args = ["-i", fname, "-o", stem]
            elif style == "input_ns":  # -n without -o: the files are still named after the UFL file
                prefix = "ns2"
                args = ["-i", fname, "-n", prefix]
            elif style == "input_only":
                args = ["-i", fname]
            elif style == "dir_out":
                outdir = os.path.join(work, "gen")
                os.makedirs(outdir)
                stem = "o3"
                args = ["-d", "gen", "-i", fname, "-o", stem]
            elif style == "dir":
                outdir = os.path.join(work, "gen")
                os.makedirs(outdir)
                args = ["-d", "gen", fname]
            opts = dict(case.get("options") or {})
            for k, v in opts.items():
                args += [f"--{k}"] + ([] if v is True else [str(v)])
            if kind == "numba":
                args += ["--language", "numba"]
            rc, out = run_ffcx(args, work, {"XDG_CONFIG_HOME": xdg})
            res["evaluations"] = 1
            if rc != 0:
                if case.get("demo"):
                    count("demo_rejected")
                    return {"verdict": INCONCLUSIVE, "why": f"ffcx exits {rc} on {fname}: {out[-160:]}", "counters": cnt}
                viol("cli-fails", f"ffcx {args} exits {rc}: {out[-300:]}")
                res["verdict"] = VIOLATED
                return res
            count("cli_runs")
            # ---- load the same UFL file in the harness to know what was asked for
            import ufl

            ufd = ufl.algorithms.load_ufl_file(os.path.join(work, fname))
            names = ufd.object_names
            want_forms = [f"form_{prefix}_{names.get(id(f), i)}" for i, f in enumerate(ufd.forms)]
            want_exprs = [f"expression_{prefix}_{names.get(id(e[0]), i)}" for i, e in enumerate(ufd.expressions)]
            if kind == "numba":
                pth = os.path.join(outdir, stem + "_numba.py")
                if not os.path.exists(pth):
                    viol("cli-output-missing", f"{stem}_numba.py not written (files: {sorted(os.listdir(outdir))})")
                else:
                    text = open(pth).read()
                    try:
                        from vf.checks.c18 import load_numba_module

                        ns, _ = load_numba_module(text)
                        count("numba_modules_valid")
                        missing = [a for a in want_forms + want_exprs if a not in ns]
                        if missing:
                            viol("alias-missing", f"numba module lacks aliases {missing}")
                        else:
                            count("aliases_ok", len(want_forms + want_exprs))
                            res["nontrivial"].append(case_hash([case, "numba"]))
                    except SyntaxError as e:
                        viol("numba-module-not-valid-python", f"{fname}: {e.msg} line {e.lineno}")
                res["cover"]["style"] = ["numba:" + style]
            else:
                hp, cp = os.path.join(outdir, stem + ".h"), os.path.join(outdir, stem + ".c")
                if not (os.path.exists(hp) and os.path.exists(cp)):
                    viol("cli-output-missing", f"{stem}.h/.c not written (files: {sorted(os.listdir(outdir))})")
                    res["verdict"] = VIOLATED
                    return res
                header, source = open(hp).read(), open(cp).read()
                # ---- stand-alone compile + nm
                obj = os.path.join(wd, "k.o")
                p = subprocess.run(["gcc", "-std=c17", "-O0", "-c", "-Wall", "-Werror=implicit-function-declaration", "-I", E.include_path(), cp, "-o", obj], capture_output=True, text=True)
                if p.returncode != 0:
                    viol("cli-source-does-not-compile", f"{fname} {opts}: {[ln for ln in p.stderr.splitlines() if 'error' in ln][:2]}")
                else:
                    count("standalone_compiles")
                    nm = subprocess.run(["nm", "--defined-only", obj], capture_output=True, text=True).stdout
                    defined = {ln.split()[-1] for ln in nm.splitlines() if ln.strip()}
                    declared = re.findall(r"extern\s+ufcx_\w+\s*\*?\s*(\w+)\s*;", header)
                    undefined = [d for d in declared if d not in defined]
                    count("header_symbols_checked", len(declared))
                    if undefined:
                        viol("declared-but-not-defined", f"{fname}: declared in the header but not defined in the object: {undefined[:4]}")
                    fal = re.findall(r"extern\s+ufcx_form\s*\*\s*(\w+)\s*;", header)
                    eal = re.findall(r"extern\s+ufcx_expression\s*\*\s*(\w+)\s*;", header)
                    if sorted(fal) != sorted(want_forms) or sorted(eal) != sorted(want_exprs):
                        viol("alias-missing", f"{fname} ({style}): header aliases {fal + eal} but the file names {want_forms + want_exprs}")
                    else:
                        count("aliases_ok", len(fal + eal))
                # ---- kernels through the aliases vs the JIT path's source (same flags) vs oracle
                scalar = opts.get("scalar_type", "float64")
                if p.returncode == 0 and not res["violations"] and (ufd.forms or ufd.expressions) and case.get("run_kernels", True):
                    import ffcx.codegeneration.jit as jit

                    dt, rdt, _, _ = H.SCALARS[scalar]
                    cmode = "complex" in scalar
                    jopts = {k: v for k, v in opts.items()}
                    try:
                        _, _, (jdecl_f, jsrc_f) = jit.compile_forms(list(ufd.forms), options=jopts, cache_dir=os.path.join(wd, "jc1"), cffi_extra_compile_args=["-O0"]) if ufd.forms else (None, None, ("", ""))
                        _, _, (jdecl_e, jsrc_e) = jit.compile_expressions(list(ufd.expressions), options=jopts, cache_dir=os.path.join(wd, "jc2"), cffi_extra_compile_args=["-O0"]) if ufd.expressions else (None, None, ("", ""))
                    except Exception as e:
                        return {"verdict": INCONCLUSIVE, "why": f"JIT path failed for the same objects: {type(e).__name__}: {str(e)[:100]}"}
                    rng = np.random.default_rng(case["seed"])
                    # records over forms (first, via aliases in the order of the UFL file)
                    groups = []
                    if ufd.forms:
                        jh = "#include <ufcx.h>\n" + "".join(f"extern ufcx_form {n};\n" for n in re.findall(r"ufcx_form (form_[0-9a-f]+) =", jsrc_f))
                        groups.append(("forms", want_forms, 0, jh, jsrc_f, list(ufd.forms)))
                    if ufd.expressions:
                        jh = "#include <ufcx.h>\n" + "".join(f"extern ufcx_expression {n};\n" for n in re.findall(r"ufcx_expression (expression_[0-9a-f]+) =", jsrc_e))
                        groups.append(("expressions", want_exprs, 1, jh, jsrc_e, list(ufd.expressions)))
                    for gname, aliases, kcode, jhdr, jsrc, objs in groups:
                        drv_cli = E.Driver(os.path.join(wd, "cli_" + gname), header, source, variant="guard", alias_pointers=[(kcode, a) for a in aliases])
                        drv_jit = E.Driver(os.path.join(wd, "jit_" + gname), jhdr, jsrc, variant="guard")
                        if drv_cli.build_rc != 0 or drv_jit.build_rc != 0:
                            viol("alias-driver-does-not-link", f"{fname}: driver through aliases {aliases}: {(drv_cli.build_log + drv_jit.build_log)[-300:]}")
                            continue
                        if len(drv_jit.symbols) != len(aliases):
                            viol("jit-cli-object-count-differs", f"{len(drv_jit.symbols)} JIT objects vs {len(aliases)} aliases")
                            continue
                        recs, refs = [], []
                        for oi, uobj in enumerate(objs):
                            if gname == "forms":
                                try:
                                    orc = O.FormOracle(uobj, complex_mode=cmode)
                                except Exception:
                                    continue
                                if orc.multi_domain:
                                    continue
                                tables = H.parse_form_tables(source)
                                nk = None
                                for nm_, (offs, ids) in tables.items():
                                    pass
                                # only cell kernels under 'everywhere' keep the record simple
                                if ("cell", -1) not in orc.keys():
                                    continue
                                # index of the (cell,-1) kernel = position among cell integrals sorted by id -> it is the first (id -1 is smallest)
                                data = H.make_data(rng, orc.coord_element, orc.original_coefficients, orc.constants, False, cmode, "affine")
                                pos = [orc.original_coefficients.index(c_) for c_ in orc.reduced_coefficients]
                                w, _ = H.pack_w(orc.original_coefficients, pos, data, False, dt)
                                c = H.pack_c(orc.constants, data, dt)
                                x = H.pack_x(data, False, rdt)
                                ext = H.contract_extents(orc, "cell")
                                recs.append({"obj": oi, "k": 0, "scalar": scalar, "A0": np.zeros(ext["A"], dtype=dt), "w": w, "c": c, "x": x, "ent": None, "perm": None, "guard": True})
                                try:
                                    from vf.valuecheck import _cast_data

                                    R, S, _ = orc.tensor("cell", -1, _cast_data(data, dt, rdt))
                                    refs.append((R, S))
                                except O.Unsupported:
                                    refs.append(None)
                            else:
                                expr, pts = uobj
                                orc = O.ExpressionOracle(expr, pts, complex_mode=cmode)
                                if orc.domain is None or orc.multi_domain:
                                    continue
                                cel = orc.domain.ufl_coordinate_element()
                                data = H.make_data(rng, cel, orc.coefficients, orc.constants, False, cmode, "affine")
                                w, _ = H.pack_w(orc.coefficients, list(range(len(orc.coefficients))), data, False, dt)
                                c = H.pack_c(orc.constants, data, dt)
                                x = H.pack_x(data, False, rdt)
                                sh = tuple(expr.ufl_shape)
                                nA = len(pts) * (int(np.prod(sh)) if sh else 1) * (orc.arguments[0].ufl_function_space().ufl_element().dim if orc.arguments else 1)
                                recs.append({"obj": oi, "k": 0, "scalar": scalar, "A0": np.zeros(nA, dtype=dt), "w": w, "c": c, "x": x, "ent": None, "perm": None, "guard": True})
                                try:
                                    from vf.valuecheck import _cast_data

                                    R = orc.tensor(orc.domain.ufl_cell().cellname, _cast_data(data, dt, rdt))
                                    refs.append((R, np.abs(R) + 1e-300))
                                except O.Unsupported:
                                    refs.append(None)
                        if not recs:
                            continue
                        rc1, e1, o1 = drv_cli.run(recs, timeout=300)
                        rc2, e2, o2 = drv_jit.run(recs, timeout=300)
                        if rc1 != 0 or rc2 != 0:
                            viol("alias-kernel-run-fails", f"{fname}: driver rc cli={rc1} jit={rc2}: {(e1 or '')[-200:]} {(e2 or '')[-200:]}")
                            continue
                        for (a1, a2, ref, rec) in zip(o1, o2, refs, recs):
                            res["evaluations"] += 1
                            count("alias_kernel_runs")
                            if a1[0].tobytes() != a2[0].tobytes():
                                d_ = float(np.max(np.abs(a1[0].astype(complex) - a2[0].astype(complex))))
                                viol("cli-kernel-differs-from-jit", f"{fname} object {rec['obj']} ({gname}): kernel through alias differs from the JIT path's kernel (max abs diff {d_:.3e})")
                            else:
                                count("cli_equals_jit_bitwise")
                            if ref is not None:
                                R, S = ref
                                err, bnd, st = H.compare(a1[0].astype(complex if cmode else float), np.asarray(R).reshape(-1), np.asarray(S).reshape(-1), scalar, 1e-12, ops=32, floor=0.1)
                                if st == "bad":
                                    viol("cli-kernel-differs-from-oracle", f"{fname} object {rec['obj']}: err {err:.3e}")
                                elif st == "ok":
                                    count("oracle_ok")
                                    res["nontrivial"].append(case_hash([case.get("demo") or case.get("template"), case.get("params"), style, opts, gname, rec["obj"]]))
                res["cover"]["style"] = [style]
                if not res["violations"] and not res["nontrivial"]:
                    res["nontrivial"].append(case_hash([case.get("demo") or case.get("template"), style, opts, "structure"]))
            res["cover"]["file"] = [case.get("demo") or case.get("template")]
            res["sample"] = {"kind": kind, "file": fname, "args": args, "aliases": (want_forms + want_exprs)[:4]}
        elif kind == "options":
            opt, vals = case["option"], case["values"]  # values: {"cli":..., "pwd":..., "xdg":..., "default":...}
            work = os.path.join(wd, "work")
            os.makedirs(work)
            text = UFL_FILES["default_names"].format(cell="quadrilateral" if opt == "sum_factorization" else "triangle", deg=1, gdim=2)
            if opt == "sum_factorization":
                text = text.replace('element = basix.ufl.element("Lagrange", "quadrilateral", 1)',
                                    'import basix\nelement = basix.ufl.wrap_element(basix.create_tp_element(basix.ElementFamily.P, basix.CellType.quadrilateral, 1, basix.LagrangeVariant.gll_warped))')
                text = text.replace('mesh = Mesh(basix.ufl.element("Lagrange", "quadrilateral", 1, shape=(2,)))', 'mesh = Mesh(basix.ufl.blocked_element(element, shape=(2,)))')
            for subset in itertools.product((False, True), repeat=3):
                use_cli, use_pwd, use_xdg = subset
                sub = os.path.join(work, "s%d%d%d" % subset)
                os.makedirs(sub)
                open(os.path.join(sub, "f.py"), "w").write(text)
                x2 = os.path.join(sub, "xdg")
                os.makedirs(os.path.join(x2, "ffcx"))
                if use_pwd:
                    json.dump({opt: vals["pwd"]}, open(os.path.join(sub, "ffcx_options.json"), "w"))
                if use_xdg:
                    json.dump({opt: vals["xdg"]}, open(os.path.join(x2, "ffcx", "ffcx_options.json"), "w"))
                args = ["f.py"]
                if use_cli:
                    args += [f"--{opt}"] + ([] if vals["cli"] is True else [str(vals["cli"])])
                rc, out = run_ffcx(args, sub, {"XDG_CONFIG_HOME": x2})
                res["evaluations"] += 1
                expect = vals["cli"] if use_cli else vals["pwd"] if use_pwd else vals["xdg"] if use_xdg else vals["default"]
                if rc != 0:
                    viol("cli-fails", f"option {opt} sources cli={use_cli} pwd={use_pwd} xdg={use_xdg}: ffcx exits {rc}: {out[-200:]}")
                    continue
                eff = effective_options(open(os.path.join(sub, "f.h")).read())
                count("option_runs")
                got = None if eff is None else eff.get(opt, "<absent>")
                same = (got == expect) or (isinstance(expect, float) and isinstance(got, (int, float)) and abs(got - expect) <= 1e-15 * abs(expect))
                if not same:
                    mech = "store-true-default-overrides-config-file" if (isinstance(vals["default"], bool) and not use_cli and got is False and expect is True) else "option-precedence-wrong"
                    viol(mech, f"option {opt}: sources cli={use_cli}({vals['cli']}) pwd={use_pwd}({vals['pwd']}) xdg={use_xdg}({vals['xdg']}): effective value {got!r}, expected {expect!r}")
                else:
                    count("option_precedence_ok")
                    res["nontrivial"].append(case_hash([opt, subset]))
                # observable effect for the scalar type: the kernel pointer that is set
                if opt == "scalar_type" and rc == 0:
                    src = open(os.path.join(sub, "f.c")).read()
                    if not re.search(r"\.tabulate_tensor_" + str(expect) + r" = tabulate_tensor_", src):
                        viol("option-precedence-wrong", f"scalar_type expected {expect} but the generated integral does not set tabulate_tensor_{expect}")
            res["cover"]["option"] = [opt]
            res["sample"] = {"kind": "options", "option": opt, "values": vals, "subsets": 8}
    finally:
        shutil.rmtree(wd, ignore_errors=True)
    res["cover"]["kind"] = [kind]
    res["verdict"] = VIOLATED if res["violations"] else HELD
    return res


def cases_for(tier, s):
    R = []
    demos = sorted(f for f in os.listdir(os.path.join(vf.repoenv.REPO, "demo")) if f.endswith(".py") and f != "test_demos.py" and not f.endswith("_numba.py"))
    pick = demos if tier == "thorough" else demos[::2]
    for d in pick:
        opts = {"scalar_type": "complex128"} if d.startswith("Complex") else {}
        R.append({"kind": "file", "demo": d, "options": opts})
    for d in (demos if tier == "thorough" else demos[1::6]):
        if not d.startswith("Complex"):
            R.append({"kind": "numba", "demo": d})
    cells = [("triangle", 2, "0.1, 0.2", "0.5, 0.25"), ("tetrahedron", 3, "0.1, 0.2, 0.3", "0.25, 0.25, 0.25"), ("quadrilateral", 2, "0.1, 0.9", "0.5, 0.5"), ("interval", 1, "0.3", "0.8")]
    styles = ["positional", "input_out_ns", "dir"]
    # every way of naming the output: (-i) x (-o) x (-n) x (-d); one small file each, always in the pool
    for si, style in enumerate(["input_out", "input_ns", "input_only", "dir_out"]):
        R.append({"kind": "file", "template": list(UFL_FILES)[si % len(UFL_FILES)], "params": {"cell": "triangle", "deg": 1, "gdim": 2, "p0": "0.1, 0.2", "p1": "0.5, 0.25"},
                  "style": style, "options": {}, "filename": ["mass.py", "My.Forms 2.py"][si % 2]})
    n = 0
    for tmpl in UFL_FILES:
        for ci, (cell, gdim, p0, p1) in enumerate(cells if tier == "thorough" else cells[:2]):
            if tmpl == "vector_mixed" and cell == "interval":
                continue
            for si, style in enumerate(styles):
                if tier == "quick" and (n + si) % 3 != 0:
                    continue
                opts = [{}, {"scalar_type": "float32"}, {"scalar_type": "complex128"}][(n + si) % 3]
                R.append({"kind": "file", "template": tmpl, "params": {"cell": cell, "deg": 1 + (n % 2), "gdim": gdim, "p0": p0, "p1": p1}, "style": style, "options": opts,
                          "filename": ["forms-v1.py", "My.Forms 2.py", "stokes.py"][n % 3]})
            n += 1
        R.append({"kind": "numba", "template": tmpl, "params": {"cell": "triangle", "deg": 1, "gdim": 2, "p0": "0.1, 0.2", "p1": "0.5, 0.25"}, "style": "input_out_ns"})
    OPTS = [("scalar_type", {"cli": "float32", "pwd": "complex128", "xdg": "complex64", "default": "float64"}),
            ("table_rtol", {"cli": 1e-3, "pwd": 1e-4, "xdg": 1e-5, "default": 1e-6}), ("table_atol", {"cli": 1e-7, "pwd": 1e-8, "xdg": 1e-10, "default": 1e-9}),
            ("epsilon", {"cli": 1e-10, "pwd": 1e-11, "xdg": 1e-12, "default": 1e-14}), ("verbosity", {"cli": 40, "pwd": 50, "xdg": 35, "default": 30}),
            ("part", {"cli": "diagonal", "pwd": "diagonal", "xdg": "full", "default": "full"}),
            ("table_atol", {"cli": 0.0, "pwd": 0.2, "xdg": 1e-10, "default": 1e-9}), ("epsilon", {"cli": 0.0, "pwd": 1e-11, "xdg": 1e-12, "default": 1e-14}),
            ("verbosity", {"cli": 0, "pwd": 50, "xdg": 35, "default": 30}),
            ("sum_factorization", {"cli": True, "pwd": True, "xdg": True, "default": False})]
    for opt, vals in OPTS:
        R.append({"kind": "options", "option": opt, "values": vals})
    for i, c in enumerate(R):
        c["seed"] = [s, 20, i]
    return R


def main(tier, replay=None):
    s = seed()
    run = Run(
        PID, tier, "exploration",
        "file: the repository's demo UFL files and generated UFL files (several named forms, default names a/L, expressions, elements, mixed elements; file names needing "
        "sanitising; positional / -i -o -n / -d styles; scalar types) are compiled with `python -m ffcx` in throw-away directories; outputs compiled stand-alone, nm'ed, aliases "
        "compared with the names in the file, kernels reached through the aliases compared bitwise with the JIT path's source for the same objects (same gcc flags) and with "
        "the oracle; numba: module valid Python with aliases; options: each of 7 options x all 8 subsets of {CLI, $PWD json, $XDG json}; distinct non-trivial = files/objects "
        "whose alias kernels matched the oracle + option subsets decided",
        ["`python -m ffcx` stands for the `ffcx` console script (not on PATH here)", "effective options are read from the header comment ffcx writes, plus the kernel pointer for scalar_type",
         "only the (cell, everywhere) kernel of each form is executed through its alias; other kernels are covered by C01-C06"],
    )
    cases = cases_for(tier, s)
    if replay:
        cases = [json.load(open(replay))["replay"]["case"]]
    results = run_pool("c20", cases, per_case_timeout=600, chunk=1, deadline=time.time() + wall_budget(tier, 500, 3000))
    for r in results:
        run.add(r)
    run.require("standalone_compiles", 15 if not replay else 0)
    run.require("cli_equals_jit_bitwise", 10 if not replay else 0)
    run.require("option_runs", 40 if not replay else 0)
    return run.finish()


if __name__ == "__main__":
    main_wrapper(main)
