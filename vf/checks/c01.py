"""C01 — cell-integral kernels compute the form's element tensor.

Deciding monitor: JIT kernel (real ffcx, reached through the form descriptor) vs the
independent oracle (vf/oracle.py), plus the table contract on build_optimized_tables
while the case compiles.
"""

from __future__ import annotations

import time

from vf.checks._values import run_value_case
from vf.common import wall_budget, Run, main_wrapper, run_pool, seed

PID = "C01"
CELLS = ["interval", "triangle", "quadrilateral", "tetrahedron", "hexahedron"]


def run_case(case):
    return run_value_case(case, itype_filter=lambda itype, sid: itype == "cell")


def curated(tier):
    R = []

    def add(b, cell, cdeg=1, gdim=None, p=None, **kw):
        r = {"b": b, "cell": cell, "cdeg": cdeg}
        if gdim:
            r["gdim"] = gdim
        if p:
            r["p"] = p
        R.append(dict(recipe=r, **kw))

    for cell in CELLS + ["prism", "pyramid"]:
        add("mass", cell)
        add("mass", cell, p={"degree": 2})
    for cell in CELLS:
        add("stiff_nl", cell, cdeg=2 if cell in ("triangle", "interval", "quadrilateral") else 1)
        add("spatial_tables", cell)
        add("linear_nl", cell)
    for cell in ("triangle", "tetrahedron", "quadrilateral"):
        add("vector_elasticity", cell)
        add("tensor_space", cell)
        add("tensor_space", cell, p={"symmetry": True})
        add("stokes", cell)
        add("hyperelastic", cell, wscale=0.15)
        add("jacobian_drop", cell)
        add("functional_geom", cell)
        add("functional_x", cell, cdeg=2 if cell != "tetrahedron" else 1)
        add("mathfuns", cell)
        add("conditionals", cell)
        add("int_literals", cell)
        add("geom_all", cell, p={"itype": "cell"})
        add("cond_ties", cell, data_fixed={"w": 0.0, "c": 2.0})
        add("cond_ties", cell)
        add("zero_data_math", cell, data_fixed={"w": 0.0, "c": 2.0})
        add("multi_rule", cell)
        add("multi_rule_vertex", cell)
        add("real_space", cell)
        add("quadrature_element", cell)
    from vf.corpus import ARG_PAIRS, ZOO

    add("tensor3", "triangle", p={"shape": [2, 3, 2]})
    add("tensor3", "interval", p={"shape": [3, 2, 1]})
    add("tensor3", "triangle", p={"shape": [2, 3, 2], "arity": 2})

    for k, (te, tr) in enumerate(ARG_PAIRS):
        for cell in ("triangle", "tetrahedron") if "CR" in (te[0], tr[0]) or "bubble" in (te[0], tr[0]) else ("triangle", "quadrilateral", "interval"):
            if cell == "interval" and ("CR" in (te[0], tr[0])):
                continue
            add("arg_pair", cell, p={"test": list(te), "trial": list(tr)})

    for cell, fam, deg, var, disc in ZOO:
        add("family_zoo", cell, cdeg=2 if (cell in ("triangle", "quadrilateral") and deg == 1) else 1, p={"family": fam, "degree": deg, "variant": var, "discontinuous": disc})
    for cell in ("triangle", "tetrahedron"):
        add("mini", cell)
        add("curlcurl", cell)
        add("curlcurl", cell, p={"degree": 2}, cdeg=2 if cell == "triangle" else 1)
        add("hdiv", cell, cdeg=2 if cell == "triangle" else 1)
        add("hdiv", cell, p={"family": "BDM"})
        add("mixed_poisson", cell)
        add("regge", cell)
        add("regge", cell, p={"family": "HHJ"})
        add("quadrature_element_vec", cell)
    for kind in ("J", "Y"):
        add("bessel", "triangle", p={"kind": kind, "nu": 1})
        add("bessel", "tetrahedron", p={"kind": kind, "nu": 0})
    for cell in ("triangle", "hexahedron", "interval"):
        add("submesh_codim0", cell, p={"which": 0})
    add("manifold_mass", "triangle", gdim=3)
    add("manifold_mass", "interval", gdim=2, cdeg=2)
    add("manifold_mass", "interval", gdim=3)
    add("manifold_mass", "quadrilateral", gdim=3)
    add("tp_mass_stiff", "quadrilateral")
    add("tp_mass_stiff", "hexahedron", p={"degree": 1})
    add("tp_mass_stiff", "quadrilateral", p={"blocked": True})
    # scalar types
    for st in ("float32", "complex128", "complex64"):
        add("stiff_nl", "triangle", cdeg=2, options={"scalar_type": st})
        add("stokes", "triangle", options={"scalar_type": st})
    return R


def randoms(n, s):
    out = []
    for i in range(n):
        cell = CELLS[i % len(CELLS)]
        if i % 17 == 9:
            cell = "prism" if (i // 17) % 2 == 0 else "pyramid"
        arity = (i // len(CELLS)) % 3
        cdeg = 2 if (i % 7 == 3 and cell in ("triangle", "interval", "quadrilateral")) else 1
        gdim = None
        if i % 11 == 5 and cell in ("interval", "triangle"):
            gdim = {"interval": 2, "triangle": 3}[cell]
        opts = {}
        if i % 6 == 4:
            opts = {"scalar_type": ["float32", "complex128", "complex64"][(i // 6) % 3]}
        r = {
            "b": "rand",
            "cell": cell,
            "cdeg": cdeg,
            "p": {"seed": [s, 1, i], "itype": "cell", "arity": arity, "with_md": i % 4 == 1,
                  "complex_ok": "complex" in opts.get("scalar_type", "")},
        }
        if gdim:
            r["gdim"] = gdim
        out.append({"recipe": r, "options": opts, "seed": [s, 101, i]})
    return out


def main(tier, replay=None):
    s = seed()
    run = Run(
        PID,
        tier,
        "exploration",
        "cases = curated cell forms (every element kind x cell x geometry class named in the property) + "
        "seeded random forms; each kernel is reached via the form descriptor, called on random non-degenerate "
        "geometry/coefficients/constants with A pre-filled, and compared with the independent oracle; "
        "a case is non-trivial and distinct when the oracle magnitude max(S) > 1e-6, the comparison ran, and "
        "the (recipe, integral, entity, geometry class, scalar type) hash is new",
        [
            "UFL symbolic lowering and basix tabulation/quadrature are trusted (used by both sides)",
            "oracle implements the UFCx contract independently of ffcx (no ffcx imports)",
            "CellOrientation is +1 (kernel signature has no input for it)",
            "gcc via cffi at -O1 is the compiler under the kernels",
        ],
    )
    cases = curated(tier)
    for i, c in enumerate(cases):
        c.setdefault("seed", [s, 100, i])
        c["stage_monitors"] = True
    nrand = 40 if tier == "quick" else 1200
    rc = randoms(nrand, s)
    for c in rc:
        c["stage_monitors"] = True
    if tier == "thorough":
        extra = []
        for c in cases:
            for st in ("float32", "complex128"):
                if "options" not in c:
                    extra.append(dict(c, options={"scalar_type": st}))
        cases += extra
    cases += rc
    if replay:
        import json

        cases = [json.load(open(replay))["replay"]["case"]]
    budget = wall_budget(tier, 420, 3000)
    results = run_pool("c01", cases, per_case_timeout=240, chunk=3, deadline=time.time() + budget)
    for r in results:
        run.add(r)
    run.require("compared_ok_nontrivial", 30 if not replay else 1)
    run.require("table_contract_values_ok", 30 if not replay else 1)
    run.require("factorization_contract_evals", 30 if not replay else 1)
    return run.finish()


if __name__ == "__main__":
    main_wrapper(main)
