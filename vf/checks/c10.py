"""C10 — optimisation options never change the computed tensor.

Differential kernels of one form compiled under option sets, plus the oracle:
 sumfact : sum_factorization on/off on tensor-product meshes (quadrilateral, hexahedron)
 diagonal: part='diagonal' vs the diagonal of the full tensor (block diagonal for mixed spaces)
 tol     : table_rtol/table_atol grid; differences bounded by 50 x the table perturbation actually applied (measured)
 na      : options that do not apply to an integral must have no effect (bitwise equal output, and no failure)
"""

from __future__ import annotations

import time

import numpy as np

import vf.repoenv  # noqa: F401
from vf.common import wall_budget, HELD, INCONCLUSIVE, VIOLATED, Run, case_hash, main_wrapper, run_pool, seed

PID = "C10"


def _call_all(comp, uf, cf, orc, data_by_key, scalar, H, O, rng_ents):
    """Call every kernel of cf once on the prepared data; returns {(itype,sid,k): A}."""
    dt, rdt, _, _ = H.SCALARS[scalar]
    desc = H.read_form(comp.ffi, cf)
    out = {}
    for itype, sid, k, itg in H.integral_entries(comp.ffi, cf, desc):
        interior = itype == "interior_facet"
        key = (itype, sid)
        data, ents, perms = data_by_key(itype, sid)
        w, _ = H.pack_w(orc.original_coefficients, desc["original_coefficient_positions"], data, interior, dt)
        c = H.pack_c(orc.constants, data, dt)
        x = H.pack_x(data, interior, rdt)
        shape = orc.tensor_shape(itype) or (1,)
        A = np.zeros(shape, dtype=dt)
        ent = None if itype == "cell" else np.array(ents if interior else ents[:1], dtype=np.intc)
        perm = None if itype == "cell" else np.array(perms if interior else perms[:1], dtype=np.uint8)
        if itype in ("exterior_facet", "interior_facet"):
            from vf.valuecheck import facet_kernel_matches_entity

            if not facet_kernel_matches_entity(orc.cellname, itype, int(itg.domain), ents[0]):
                continue
        H.call_kernel(comp.ffi, itg, scalar, A, w, c, x, ent, perm)
        out[(itype, sid, k)] = A
    return out


def _diagonal_form(uf):
    """The form jit.compile_forms substitutes under part='diagonal' (sum of the diagonal blocks of ufl.extract_blocks), or None."""
    import ufl

    if len({a.number() for a in uf.arguments()}) != 2:
        return None
    try:
        blocked = ufl.extract_blocks(uf, replace_argument=False)
    except Exception:
        return None
    if isinstance(blocked, ufl.form.Form):
        return None
    d = None
    for j in range(len(blocked)):
        if blocked[j][j] is not None:
            d = blocked[j][j] if d is None else d + blocked[j][j]
    return d


def _rules_differ(uf, dform, key, dk, cmode, O):
    """(rules of the user's form, rules of the derived diagonal form) for the integral `key` when they differ, else None."""
    try:
        itype, sid = key[0], key[1]
        data, ents, perms = dk(itype, sid)
        r1 = O.FormOracle(uf, complex_mode=cmode, diagonal=True).tensor(itype, sid, data, ents, perms)[2]["rules"]
        r2 = O.FormOracle(dform, complex_mode=cmode, diagonal=True).tensor(itype, sid, data, ents, perms)[2]["rules"]
    except Exception:
        return None
    return (r1, r2) if sorted(map(str, r1)) != sorted(map(str, r2)) else None


def run_case(case):
    from vf import corpus
    from vf import harness as H
    from vf import monitors as M
    from vf import oracle as O
    from vf import valuecheck as VC

    recipe, mode = case["recipe"], case["mode"]
    scalar = case.get("scalar", "float64")
    rng = np.random.default_rng(case.get("seed", [0]))
    res = {"evaluations": 0, "counters": {}, "cover": {}, "nontrivial": [], "violations": []}
    cnt = res["counters"]

    def count(k, n=1):
        cnt[k] = cnt.get(k, 0) + n

    def viol(mech, what, extra=None):
        res["violations"].append({"mechanism": mech, "what": f"[{mode}] {recipe}: {what}", "replay": {"case": case, "extra": extra}})

    b = corpus.build(recipe)
    uf = b.forms[0]
    cmode = "complex" in scalar
    base_opts = {"scalar_type": scalar}
    if mode == "diagonal" and len(uf.arguments()) == 2 and len({a.ufl_function_space() for a in uf.arguments()}) != 1:
        return {"verdict": INCONCLUSIVE, "why": "diagonal of a non-square bilinear form is undefined (ffcx asserts identical arguments)"}
    opt_sets = case["option_sets"]  # list of dicts; the first is the baseline
    comps, deltas, errs = [], [], []
    for o in opt_sets:
        try:
            with M.table_delta() as td:
                comps.append(H.jit_forms([uf], dict(base_opts, **o)))
            deltas.append(td.delta)
            errs.append(None)
        except Exception as e:
            import traceback

            comps.append(None)
            deltas.append(0.0)
            frames = traceback.extract_tb(e.__traceback__)
            # part=diagonal on a mixed space: jit replaces the form by ufl.extract_blocks(...) diagonal blocks; UFL's own lowering
            # can reject that derived form (e.g. curl of a zero-padded ListTensor).  UFL is trusted base: not an ffcx verdict.
            in_ufl_blocks = (o.get("part") == "diagonal" and "/ufl/" in frames[-1].filename
                             and any(f.name == "compute_form_data" for f in frames)
                             and any(type(a.ufl_function_space().ufl_element()).__name__ in ("_MixedElement", "_BlockedElement") for a in uf.arguments()))
            errs.append(("UFL-REJECTED " if in_ufl_blocks else "") + f"{type(e).__name__}: {str(e)[:200]}")
    count("compiles", sum(c is not None for c in comps))
    if comps[0] is None:
        return {"verdict": INCONCLUSIVE, "why": "baseline did not compile: " + str(errs[0])[:150]}
    def non_tp_elements():
        import ufl

        els = list(ufl.algorithms.extract_elements(uf)) + [d.ufl_coordinate_element() for d in ufl.domain.extract_domains(uf)]
        return [str(e)[:40] for e in els if not getattr(e, "has_tensor_product_factorisation", False)]

    for o, e in zip(opt_sets[1:], errs[1:]):
        if e is not None:
            if e.startswith("UFL-REJECTED"):
                count("rejected_by_ufl_extract_blocks")
                continue
            if o.get("part") == "diagonal" and "Diagonal form seems to be zero" in e:
                count("rejected_zero_diagonal")  # explicit, documented rejection by jit.compile_forms
                continue
            if mode == "sumfact" and e.startswith("AssertionError") and non_tp_elements():
                viol("sum-factorization-non-tp-element-asserts", f"options {o}: AssertionError on a {b.ctx.cell} whose elements {non_tp_elements()[:3]} "
                     "have no tensor-product factorisation (sum factorisation should fall back, not fail)")
                continue
            if mode == "na":
                sf = bool(o.get("sum_factorization"))
                mech = "sum-factorization-not-applicable-fails" if sf else "option-not-applicable-fails"
                viol(mech, f"options {o} do not apply to this form but compilation fails: {e}")
            elif mode == "sumfact":
                viol("sum-factorization-fails-on-tp-cell", f"options {o}: compilation fails on a quadrilateral/hexahedral cell: {e}")
            else:
                viol("option-fails", f"options {o}: compilation fails: {e}")
    orc0 = O.FormOracle(uf, complex_mode=cmode)
    cellname = orc0.cellname
    cache = {}
    # part='diagonal' on a mixed space compiles a DERIVED form (the diagonal blocks).  When a coefficient or constant of the user's
    # form lives only in off-diagonal blocks, the derived form has fewer of them and the compiled module numbers its coefficient
    # positions / constant offsets relative to the derived form, not the form the user passed (known finding, see classifier below)
    dform = _diagonal_form(uf) if mode == "diagonal" else None
    renumbered = dform is not None and (list(dform.constants()) != list(uf.constants()) or list(dform.coefficients()) != list(uf.coefficients()))
    if renumbered:
        count("diagonal_forms_with_dropped_coefficients_or_constants")

    def data_by_key_factory(kind):
        def f(itype, sid):
            key = (itype, sid, kind)
            if key not in cache:
                interior = itype == "interior_facet"
                data = H.make_data(rng, orc0.coord_element, orc0.original_coefficients, orc0.constants, interior, cmode, kind)
                edim, nent = orc0.entity_info(itype)
                e0 = int(rng.integers(nent))
                ents = (e0, int(rng.integers(nent)))
                if interior and O.facet_celltype(cellname, ents[0]) != O.facet_celltype(cellname, ents[1]):
                    ents = (e0, e0)
                perms = (0, 0)
                if interior:
                    perms = (int(rng.integers(H.facet_perm_count(cellname, ents[0]))), int(rng.integers(H.facet_perm_count(cellname, ents[1]))))
                cache[key] = (data, ents, perms)
            return cache[key]
        return f

    kinds = ("affine", "nonaffine") if cellname in ("quadrilateral", "hexahedron") or recipe.get("cdeg", 1) > 1 else ("affine",)
    sample = None
    for kind in kinds:
        dk = data_by_key_factory(kind)
        outs = []
        for comp, o in zip(comps, opt_sets):
            if comp is None:
                outs.append(None)
                continue
            diag = o.get("part") == "diagonal"
            orc = O.FormOracle(uf, complex_mode=cmode, sum_factorization=bool(o.get("sum_factorization")), diagonal=diag)
            outs.append(_call_all(comp, uf, comp.objs[0], orc, dk, scalar, H, O, rng))
            count("kernel_calls", len(outs[-1]))
            res["evaluations"] += len(outs[-1])
        alt = {}
        if renumbered:
            for oi, (comp, o) in enumerate(zip(comps, opt_sets)):
                if comp is not None and o.get("part") == "diagonal":
                    try:  # the same kernels with w/c packed by the derived form's own coefficient/constant lists
                        alt[oi] = _call_all(comp, dform, comp.objs[0], O.FormOracle(dform, complex_mode=cmode, diagonal=True), dk, scalar, H, O, rng)
                    except Exception:
                        pass
        base = outs[0]
        for oi in range(1, len(opt_sets)):
            if outs[oi] is None:
                continue
            o = opt_sets[oi]
            if set(outs[oi]) != set(base):
                viol("descriptor-changes-with-option", f"options {o}: kernels listed {sorted(outs[oi])} vs {sorted(base)}")
                continue
            for key, A in outs[oi].items():
                A0 = base[key]
                wide = np.complex128 if cmode else np.float64
                if mode == "diagonal" and A0.ndim == 2:
                    ref = np.diagonal(A0).astype(wide)
                    got = A.astype(wide).reshape(ref.shape)
                else:
                    ref, got = A0.astype(wide), A.astype(wide).reshape(A0.shape)
                scale = max(float(np.max(np.abs(A0))), 1e-300)
                err = float(np.max(np.abs(got - ref))) / scale
                count("differential_checks")
                if o == opt_sets[0]:
                    # the baseline options compiled again after the other settings, in the same process
                    if A.tobytes() != A0.tobytes():
                        viol("state-leaks-between-compilations", f"the same options {o} compiled again after {opt_sets[1:oi]} give a different tensor on {key} "
                             f"({kind} geometry): relative difference {err:.3e}")
                    else:
                        count("repeated_baseline_bitwise_equal")
                    continue
                if mode == "na":
                    if A.tobytes() != A0.tobytes() and err > 0:
                        viol("option-not-applicable-changes-output", f"options {o} do not apply to {key} but change the output by {err:.3e} (relative)")
                    else:
                        count("differential_ok")
                        res["nontrivial"].append(case_hash([recipe, mode, o, key, kind]))
                    continue
                # allowed: rounding of a different summation order + measured table perturbation
                dmax = max(deltas[0], deltas[oi])
                bound = 5e4 * H.EPS[scalar] + 50 * dmax
                if mode == "sumfact":
                    # different rules only if point sets differ; the oracle comparison below decides then
                    pass
                if err <= bound:
                    count("differential_ok")
                    if scale > 1e-6:
                        res["nontrivial"].append(case_hash([recipe, mode, o, key, kind]))
                        if sample is None:
                            sample = {"recipe": recipe, "mode": mode, "options": [opt_sets[0], o], "kernel": list(key), "geometry": kind,
                                      "rel_diff": err, "bound": bound, "measured_table_delta": dmax, "max_abs": scale}
                elif mode == "tol" and err <= 100 * bound and dmax > 1e-12:
                    count("grey_band")
                elif mode == "diagonal" and oi in alt and key in alt[oi] and float(np.max(np.abs(alt[oi][key].astype(wide).reshape(ref.shape) - ref))) / scale <= bound:
                    viol("diagonal-option-renumbers-coefficients-and-constants",
                         f"options {o} on {key}: the diagonal kernel equals the diagonal of the full tensor only when w/c are packed by the coefficient/constant "
                         f"lists of the derived diagonal-block form ({len(dform.coefficients())} coefficients, {len(dform.constants())} constants) instead of the "
                         f"compiled user's form ({len(uf.coefficients())}, {len(uf.constants())}); with the user's lists the relative difference is {err:.3e}")
                elif mode == "diagonal" and dform is not None and _rules_differ(uf, dform, key, dk, cmode, O):
                    # the derived diagonal-block form lost a term that decided the ESTIMATED quadrature degree of the integral: the
                    # diagonal kernel integrates with another rule than the full kernel (its values are checked against the oracle
                    # of the derived form below)
                    viol("diagonal-option-derived-form-changes-quadrature-rule",
                         f"options {o} on {key}: the derived diagonal-block form gets quadrature {_rules_differ(uf, dform, key, dk, cmode, O)[1]} where the user's form gets "
                         f"{_rules_differ(uf, dform, key, dk, cmode, O)[0]}: diagonal kernel and diagonal of the full tensor differ by {err:.3e} (quadrature error)")
                else:
                    viol({"sumfact": "sum-factorization-changes-tensor", "diagonal": "diagonal-differs-from-full", "tol": "tolerance-changes-beyond-allowed"}.get(mode, "option-changes-tensor"),
                         f"options {o} vs {opt_sets[0]} on {key} ({kind} geometry): relative difference {err:.3e} > {bound:.1e} (measured table delta {dmax:.1e})")
    # every option set also against the oracle (own rule)
    for comp, o, d in zip(comps, opt_sets, deltas):
        if comp is None:
            continue
        # (with dropped coefficients/constants the value check packs by the derived form: the packing defect is reported once, above)
        uf_o = dform if (dform is not None and o.get("part") == "diagonal") else uf
        obs, desc, orc = VC.run_form(uf_o, comp, comp.objs[0], rng, scalar=scalar, entity_mode="some", entity_limit=3, perm_mode="some",
                                     sum_factorization=bool(o.get("sum_factorization")), diagonal=o.get("part") == "diagonal", delta=d)
        for ob in obs:
            res["evaluations"] += 1
            if ob.status == "ok":
                count("oracle_ok")
            elif ob.status == "bad":
                viol("value-mismatch-under-option", f"options {o}: {ob.itype}/{ob.sid} entities {ob.entities}: err={ob.err:.3e} > {ob.bound:.1e}")
            elif ob.status == "grey":
                count("grey_band")
    res["cover"]["mode"] = [mode]
    res["cover"]["cell"] = [cellname]
    res["cover"]["options"] = [str(o) for o in opt_sets[1:]]
    res["sample"] = sample
    if res["violations"]:
        res["verdict"] = VIOLATED
    elif cnt.get("differential_ok", 0) == 0:
        res["verdict"] = INCONCLUSIVE
        res["why"] = "no differential comparison ran"
    else:
        res["verdict"] = HELD
    return res


def cases_for(tier, s):
    R = []
    SF = [{}, {"sum_factorization": True}]
    # ---- sumfact on tensor-product meshes
    for cell, degs in (("quadrilateral", (1, 2, 3, 4)), ("hexahedron", (1, 2, 3) if tier == "thorough" else (1, 2))):
        for d in degs:
            R.append({"mode": "sumfact", "recipe": {"b": "tp_mass_stiff", "cell": cell, "tpmesh": True, "p": {"degree": d}}, "option_sets": SF})
        R.append({"mode": "sumfact", "recipe": {"b": "tp_mass_stiff", "cell": cell, "tpmesh": True, "p": {"degree": 1, "blocked": True}}, "option_sets": SF})
        R.append({"mode": "sumfact", "recipe": {"b": "tp_mass_stiff", "cell": cell, "tpmesh": True, "cdeg": 2, "p": {"degree": 2}}, "option_sets": SF})
        R.append({"mode": "sumfact", "recipe": {"b": "tp_forms", "cell": cell, "tpmesh": True, "p": {"which": "advection", "degree": 2}}, "option_sets": SF})
        R.append({"mode": "sumfact", "recipe": {"b": "tp_forms", "cell": cell, "tpmesh": True, "p": {"which": "linear", "degree": 2}}, "option_sets": SF})
        R.append({"mode": "sumfact", "recipe": {"b": "tp_forms", "cell": cell, "tpmesh": True, "p": {"which": "functional", "degree": 1}}, "option_sets": SF})
        # two different 1-D bases of the same degree in one integral (table reuse must compare values, not shapes)
        for d_ in (3, 4) if cell == "quadrilateral" else (3,):
            R.append({"mode": "sumfact", "recipe": {"b": "tp_two_variants", "cell": cell, "tpmesh": True, "p": {"degree": d_, "arity": 1}}, "option_sets": SF})
        R.append({"mode": "sumfact", "recipe": {"b": "tp_two_variants", "cell": cell, "tpmesh": True, "p": {"degree": 3, "arity": 2}}, "option_sets": SF})
        # non-default schemes must survive the option (non-polynomial integrands: a swapped rule of equal degree shows)
        R.append({"mode": "sumfact", "recipe": {"b": "tp_rule_mix", "cell": cell, "tpmesh": True, "p": {"rules": [["GLL", 3]]}}, "option_sets": SF})
        R.append({"mode": "sumfact", "recipe": {"b": "tp_rule_mix", "cell": cell, "tpmesh": True, "p": {"rules": [["GLL", 2], ["default", 4]], "bilinear": cell == "quadrilateral"}}, "option_sets": SF})
        # standard (non tensor-product) elements on the same cells
        R.append({"mode": "sumfact", "recipe": {"b": "stiff_nl", "cell": cell, "p": {"degree": 1}}, "option_sets": SF})
    # ---- diagonal
    DG = [{}, {"part": "diagonal"}]
    for cell in ("triangle", "tetrahedron", "quadrilateral", "interval"):
        R.append({"mode": "diagonal", "recipe": {"b": "mass", "cell": cell, "p": {"degree": 2}}, "option_sets": DG})
        R.append({"mode": "diagonal", "recipe": {"b": "stiff_nl", "cell": cell}, "option_sets": DG})
        if cell != "interval":
            R.append({"mode": "diagonal", "recipe": {"b": "vector_elasticity", "cell": cell}, "option_sets": DG})
            R.append({"mode": "diagonal", "recipe": {"b": "stokes", "cell": cell}, "option_sets": DG})
        R.append({"mode": "diagonal", "recipe": {"b": "facet_flux", "cell": cell}, "option_sets": DG})
        if cell in ("triangle", "tetrahedron"):
            # a constant / a coefficient that occurs only in an off-diagonal block (packing relative to the user's form)
            R.append({"mode": "diagonal", "recipe": {"b": "diag_dropped", "cell": cell, "p": {"what": "constant"}}, "option_sets": DG})
            R.append({"mode": "diagonal", "recipe": {"b": "diag_dropped", "cell": cell, "p": {"what": "coefficient"}}, "option_sets": DG})
            R.append({"mode": "diagonal", "recipe": {"b": "diag_dropped", "cell": cell, "p": {"what": "degree"}}, "option_sets": DG})
        R.append({"mode": "diagonal", "recipe": {"b": "dg_jump", "cell": cell}, "option_sets": DG})
    # ---- tolerances
    # order matters: a very loose setting is compiled BEFORE the tight ones and the defaults are compiled again at the end, all in one
    # process: what one compilation did to shared tables must not reach the next (the repeated baseline must be bitwise equal)
    grid = [{}, {"table_rtol": 0.05, "table_atol": 0.05}, {"table_rtol": 1e-12, "table_atol": 1e-12}, {"table_rtol": 1e-3, "table_atol": 1e-3},
            {"table_rtol": 1e-6, "table_atol": 1e-4}, {"table_rtol": 1e-9, "table_atol": 1e-14}, {}]
    for cell in ("triangle", "tetrahedron", "hexahedron"):
        for bname in ("stiff_nl", "stokes", "spatial_tables", "curlcurl", "dg_jump"):
            if bname == "curlcurl" and cell == "hexahedron":
                continue
            R.append({"mode": "tol", "recipe": {"b": bname, "cell": cell, "cdeg": 2 if cell == "triangle" else 1}, "option_sets": grid})
    # ---- options that do not apply
    for cell in ("triangle", "tetrahedron", "interval"):
        R.append({"mode": "na", "recipe": {"b": "stiff_nl", "cell": cell}, "option_sets": SF})
        R.append({"mode": "na", "recipe": {"b": "facet_flux", "cell": cell}, "option_sets": SF})
    R.append({"mode": "na", "recipe": {"b": "facet_plain", "cell": "quadrilateral", "tpmesh": True}, "option_sets": SF})
    R.append({"mode": "na", "recipe": {"b": "dg_jump", "cell": "hexahedron", "tpmesh": True}, "option_sets": SF})
    R.append({"mode": "na", "recipe": {"b": "vertex_form", "cell": "quadrilateral", "tpmesh": True}, "option_sets": SF})
    for cell in ("triangle", "quadrilateral"):
        R.append({"mode": "na", "recipe": {"b": "linear_nl", "cell": cell}, "option_sets": DG})
        R.append({"mode": "na", "recipe": {"b": "functional_x", "cell": cell}, "option_sets": DG})
        R.append({"mode": "na", "recipe": {"b": "dg_one_sided", "cell": cell}, "option_sets": DG})
    n = 10 if tier == "quick" else 200
    cells = ["triangle", "quadrilateral", "tetrahedron", "hexahedron", "interval"]
    for i in range(n):
        cell = cells[i % 5]
        rec = {"b": "rand", "cell": cell, "p": {"seed": [s, 10, i], "itype": ["cell", "exterior_facet", "interior_facet"][(i // 5) % 3], "arity": 2}}
        R.append({"mode": "diagonal", "recipe": rec, "option_sets": DG})
        R.append({"mode": "tol", "recipe": dict(rec, p=dict(rec["p"], arity=(i % 3))), "option_sets": grid[:3] + [{}]})
    for i, c in enumerate(R):
        c["seed"] = [s, 1000, i]
        if i % 7 == 3:
            c["scalar"] = "complex128" if c["recipe"]["b"] in ("mass", "stiff_nl", "tp_mass_stiff", "stokes", "vector_elasticity", "dg_jump", "facet_flux") else "float32"
    return R


def main(tier, replay=None):
    s = seed()
    run = Run(
        PID, tier, "exploration",
        "cases = (form, option set) groups: sum_factorization on/off on tensor-product meshes (degree 1-4, blocked, degree-2 geometry, "
        "advection/linear/functional forms, non-parallelogram cells); part=diagonal vs diagonal of the full tensor (scalar, vector, mixed, facet, "
        "interior facet, random bilinear forms); table tolerance grid {default,1e-3,1e-12,...} with differences bounded by 50x the table "
        "perturbation measured while compiling; options that do not apply (sum factorisation on simplices / facet / vertex integrals, diagonal on "
        "rank 0/1) must leave the output bitwise unchanged and must not fail; every option set is also compared with the oracle; "
        "distinct non-trivial = (recipe, mode, options, kernel, geometry class) differential comparisons with max|A| > 1e-6",
        ["same gcc flags for all option sets of a group, so 'no effect' can be tested bitwise", "UFL/basix trusted",
         "sum-factorised and default rules are both Gauss-Jacobi based; where their point sets differ the oracle (own rule each) decides"],
    )
    cases = cases_for(tier, s)
    if replay:
        import json

        cases = [json.load(open(replay))["replay"]["case"]]
    results = run_pool("c10", cases, per_case_timeout=400, chunk=2, deadline=time.time() + wall_budget(tier, 480, 3000))
    for r in results:
        run.add(r)
    run.require("differential_ok", 80 if not replay else 0)
    return run.finish()


if __name__ == "__main__":
    main_wrapper(main)
