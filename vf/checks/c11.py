"""C11 — requested quadrature degree/scheme is honoured and exact where it should be.

 mono   : kernel vs CLOSED-FORM monomial integrals (exact rationals, vf/exactint.py) on rational affine cells; the monomial
          exponents are kernel constants so one kernel per (cell, degree, arity, integral type) serves many monomials
 nomd   : polynomial forms without metadata: the estimated-degree default must be exact (closed form)
 vertex : 'vertex' scheme = (volume/n) * sum over vertices -- closed form, non-polynomial integrand
 mix    : several rules in one subdomain (pairs from default/GLL/Gauss-Jacobi/vertex, equal rules twice, shared
          sub-expressions): kernel vs oracle applying each rule to its own integrand, with a discrimination test
          (the oracle with the rules swapped must differ visibly)
 qelem  : quadrature elements use exactly their own points/weights (oracle with those points)
"""

from __future__ import annotations

import time

import numpy as np

import vf.repoenv  # noqa: F401
from vf.common import wall_budget, HELD, INCONCLUSIVE, VIOLATED, Run, case_hash, main_wrapper, run_pool, seed

PID = "C11"
CELLS = ["interval", "triangle", "quadrilateral", "tetrahedron", "hexahedron", "prism", "pyramid"]
PHI_DEG = {"interval": 1, "triangle": 1, "tetrahedron": 1, "quadrilateral": 2, "hexahedron": 3, "prism": 2}


def run_case(case):
    import basix

    from vf import corpus
    from vf import exactint as X
    from vf import harness as H
    from vf import oracle as O
    from vf import valuecheck as VC

    kind, recipe = case["kind"], case["recipe"]
    rng = np.random.default_rng(case.get("seed", [0]))
    res = {"evaluations": 0, "counters": {}, "cover": {}, "nontrivial": [], "violations": []}
    cnt = res["counters"]

    def count(k, n=1):
        cnt[k] = cnt.get(k, 0) + n

    def viol(mech, what, extra=None):
        res["violations"].append({"mechanism": mech, "what": f"[{kind}] {recipe}: {what}", "replay": {"case": case, "extra": extra}})

    b = corpus.build(recipe)
    uf = b.forms[0]
    try:
        comp = H.jit_forms([uf], case.get("options", {}))
    except Exception as e:
        return {"verdict": INCONCLUSIVE, "why": f"ffcx did not compile: {type(e).__name__}: {str(e)[:150]}"}
    ffi = comp.ffi
    cf = comp.objs[0]
    desc = H.read_form(ffi, cf)
    entries = H.integral_entries(ffi, cf, desc)
    cellname = recipe["cell"]
    td = O.tdim_of(cellname)
    if kind in ("mono", "nomd", "vertex"):
        p = recipe.get("p", {})
        itype = p.get("itype", "cell")
        arity = p.get("arity", 0)
        phi = X.vertex_basis(cellname) if arity == 1 else None
        nmaps = case.get("nmaps", 2)
        for _ in range(nmaps):
            B, Bf = X.rational_affine(rng, td)
            bsh = X.shift_positive(cellname, Bf, B)
            xv = X.physical_vertices(cellname, Bf, bsh)
            xd = np.zeros((xv.shape[0], 3))
            xd[:, :td] = xv
            xd = np.ascontiguousarray(xd)
            if kind == "mono":
                q = p["q"]
                tot = q - (PHI_DEG[cellname] if arity == 1 else 0)
                alphas = X.exponent_sets(td, tot, rng, 3) + (X.exponent_sets(td, max(tot - 1, 0), rng, 1)[:1] if tot > 0 else [])
            elif kind == "nomd":
                alphas = [tuple(a) for a in p["alphas"]]
            else:
                alphas = [None]
            for itype_, sid, k, itg in entries:
                nent = 1 if itype_ == "cell" else O.num_entities(cellname, td - 1)
                for ent in range(nent):
                    if itype_ != "cell" and int(itg.domain) != int(O.facet_celltype(cellname, ent)):
                        continue
                    todo = alphas if kind == "mono" else [alphas]
                    for al in todo:
                        if kind == "mono":
                            cvals = np.array(al, dtype=float)
                        elif kind == "nomd":
                            cvals = rng.uniform(0.5, 1.5, len(alphas))
                        else:
                            cvals = np.zeros(0)
                        n = len(phi) if arity == 1 else 1
                        A = np.zeros(n)
                        e_arr = None if itype_ == "cell" else np.array([ent], dtype=np.intc)
                        H.call_kernel(ffi, itg, "float64", A, np.zeros(0), np.ascontiguousarray(cvals), xd, e_arr, None)
                        res["evaluations"] += 1
                        count("kernel_calls")
                        # closed form
                        if kind == "mono":
                            if itype_ == "cell":
                                ex = X.monomial_cell_integral(cellname, B, bsh, al, phi)
                                exact = np.array([float(v) for v in ex]) if arity == 1 else np.array([float(ex)])
                            else:
                                val, _ = X.monomial_facet_integral(cellname, ent, B, bsh, al)
                                exact = np.array([val])
                        elif kind == "nomd":
                            exact = np.zeros(n)
                            for ck, a_ in zip(cvals, alphas):
                                ex = X.monomial_cell_integral(cellname, B, bsh, a_, phi)
                                exact += ck * (np.array([float(v) for v in ex]) if arity == 1 else float(ex))
                        else:
                            # vertex scheme closed form on the integration entity
                            ct = O.celltype(cellname)
                            if itype_ == "cell":
                                pts = xv
                                vol = basix.cell.volume(ct) * abs(float(X.det_exact(B)))
                            else:
                                vidx = basix.topology(ct)[td - 1][ent]
                                pts = xv[vidx]
                                _, scale = X.monomial_facet_integral(cellname, ent, B, bsh, (0,) * td)
                                vol = basix.cell.volume(O.facet_celltype(cellname, ent)) * scale
                            g = np.exp(0.3 * pts[:, 0]) * (1 + pts[:, td - 1] ** 2)
                            exact = np.array([vol / len(pts) * g.sum()])
                        scale = max(float(np.max(np.abs(exact))), 1e-300)
                        err = float(np.max(np.abs(A - exact))) / scale
                        tol = 2e-11 if kind != "mono" else 1e-11 * max(1.0, sum(al))
                        count("closed_form_checks")
                        if err > tol:
                            mech = {"mono": "requested-degree-not-exact", "nomd": "estimated-degree-not-exact", "vertex": "vertex-scheme-not-honoured"}[kind]
                            viol(mech, f"{itype_} entity {ent} alpha={al} map={[[str(v) for v in r] for r in B]}: kernel {A[:4]} vs closed form {exact[:4]} rel err {err:.3e} > {tol:.1e}")
                        else:
                            count("closed_form_ok")
                            res["nontrivial"].append(case_hash([recipe, kind, itype_, ent, al, len(res["nontrivial"])]))
                            if "sample" not in res:
                                res["sample"] = {"kind": kind, "recipe": recipe, "alpha": list(al) if al else None, "entity": ent,
                                                 "affine_map": [[str(v) for v in r] for r in B], "shift": [str(v) for v in bsh],
                                                 "kernel": A[:4].tolist(), "closed_form": exact[:4].tolist(), "rel_err": err}
        res["cover"]["cell_q"] = [f"{cellname}|q{p.get('q')}|{itype}|arity{arity}|{kind}"]
    else:
        # mix / qelem: oracle with each integral's own rule + discrimination test
        obs, desc, orc = VC.run_form(uf, comp, cf, rng, entity_mode="some", entity_limit=3, perm_mode="some", n_data=2,
                                     sum_factorization=bool(case.get("options", {}).get("sum_factorization", False)))
        for o in obs:
            res["evaluations"] += 1
            if o.status == "ok":
                count("oracle_ok")
                if o.maxS > 1e-6:
                    res["nontrivial"].append(VC.obs_hash(recipe, o) + str(len(res["nontrivial"])))
                    if "sample" not in res:
                        res["sample"] = {"kind": kind, "recipe": recipe, "rules": o.info, "err_rel": o.err, "kernel": [o.itype, o.sid]}
            elif o.status == "bad":
                viol("rule-not-honoured", f"{o.itype}/{o.sid} entities {o.entities}: kernel differs from per-integral-rule reference: err={o.err:.3e} > {o.bound:.1e}; rules {o.info}")
            elif o.status == "unsupported":
                count("oracle_unsupported")
        if kind == "mix" and recipe["b"] == "rule_mix" and not case.get("options") and len(recipe["p"]["rules"]) == 2 and recipe["p"]["rules"][0] != recipe["p"]["rules"][1]:
            # discrimination: with the two rules swapped the reference must be visibly different
            r2 = dict(recipe, p=dict(recipe["p"], rules=list(recipe["p"]["rules"])[::-1]))
            b2 = corpus.build(r2)
            o1, o2 = O.FormOracle(uf), O.FormOracle(b2.forms[0])
            itype = recipe["p"].get("itype", "cell")
            interior = itype == "interior_facet"
            data = H.make_data(rng, o1.coord_element, o1.original_coefficients, [], interior, False, "affine")
            data2 = {"x": data["x"], "w": {c2: data["w"][c1] for c1, c2 in zip(o1.original_coefficients, o2.original_coefficients)}, "c": {}}
            sid = recipe["p"].get("sid")
            sid = -1 if sid is None else sid
            R1, S1, _ = o1.tensor(itype, sid, data, (0, 0), (0, 0))
            R2, S2, _ = o2.tensor(itype, sid, data2, (0, 0), (0, 0))
            d = float(np.max(np.abs(R1 - R2))) / max(float(np.max(S1)), 1e-300)
            count("discrimination_checks")
            if d > 1e-7:
                count("discriminating")
        res["cover"]["rules"] = [str(recipe.get("p", {}).get("rules", recipe["b"]))]
    res["cover"]["cell"] = [cellname]
    if res["violations"]:
        res["verdict"] = VIOLATED
    elif cnt.get("closed_form_ok", 0) + cnt.get("oracle_ok", 0) == 0:
        res["verdict"] = INCONCLUSIVE
        res["why"] = "nothing compared"
    else:
        res["verdict"] = HELD
    return res


def cases_for(tier, s):
    R = []
    qs = [0, 1, 2, 3, 5, 8, 13, 21, 30] if tier == "quick" else list(range(0, 31))
    for cell in CELLS:
        for q in qs:
            R.append({"kind": "mono", "recipe": {"b": "monomial", "cell": cell, "p": {"q": q, "arity": 0}}})
            if cell != "pyramid" and q >= PHI_DEG[cell] and (tier == "thorough" or q in (2, 3, 8, 13, 30)):
                R.append({"kind": "mono", "recipe": {"b": "monomial", "cell": cell, "p": {"q": q, "arity": 1}}})
            if cell not in ("interval", "pyramid") and q <= 12 and (tier == "thorough" or q in (1, 3, 8)):
                R.append({"kind": "mono", "recipe": {"b": "monomial", "cell": cell, "p": {"q": q, "arity": 0, "itype": "exterior_facet"}}})
        for scheme, qq in (("GLL", 3), ("GLL", 5), ("Gauss-Jacobi", 4), ("Gauss-Jacobi", 9)):
            if scheme == "GLL" and cell not in ("interval", "quadrilateral", "hexahedron"):
                continue
            R.append({"kind": "mono", "recipe": {"b": "monomial", "cell": cell, "p": {"q": qq, "arity": 0, "scheme": scheme}}})
    for cell in CELLS[:6]:
        td = {"interval": 1, "triangle": 2, "quadrilateral": 2}.get(cell, 3)
        alph = [[2] + [0] * (td - 1), [0] * (td - 1) + [3], [1] * td, [0] * td]
        R.append({"kind": "nomd", "recipe": {"b": "poly_nomd", "cell": cell, "p": {"alphas": alph, "arity": 1}}})
        R.append({"kind": "nomd", "recipe": {"b": "poly_nomd", "cell": cell, "p": {"alphas": alph + [[4] + [0] * (td - 1)], "arity": 0}}})
        R.append({"kind": "vertex", "recipe": {"b": "vertex_scheme", "cell": cell}})
        if cell not in ("interval", "prism"):
            R.append({"kind": "vertex", "recipe": {"b": "vertex_scheme", "cell": cell, "p": {"itype": "exterior_facet"}}})
    pool = [("default", 1), ("default", 2), ("default", 4), ("default", 7), ("vertex", 1), ("Gauss-Jacobi", 3)]
    pairs = [(a, b) for i, a in enumerate(pool) for b in pool[i:]]
    if tier == "quick":
        pairs = pairs[::2]
    for i, (a, b) in enumerate(pairs):
        for cell in (("triangle", "quadrilateral") if tier == "quick" else ("triangle", "quadrilateral", "tetrahedron", "hexahedron", "interval")):
            R.append({"kind": "mix", "recipe": {"b": "rule_mix", "cell": cell, "p": {"rules": [list(a), list(b)], "shared": i % 2 == 0}}})
    for cell in ("triangle", "tetrahedron", "quadrilateral"):
        R.append({"kind": "mix", "recipe": {"b": "rule_mix", "cell": cell, "p": {"rules": [["default", 2], ["default", 5]], "itype": "exterior_facet", "shared": True}}})
        R.append({"kind": "mix", "recipe": {"b": "rule_mix", "cell": cell, "p": {"rules": [["default", 2], ["default", 5]], "itype": "interior_facet", "shared": True}}})
        R.append({"kind": "mix", "recipe": {"b": "rule_mix", "cell": cell, "p": {"rules": [["default", 1], ["default", 3], ["default", 6]], "shared": True, "sid": 2}}})
        R.append({"kind": "qelem", "recipe": {"b": "quadrature_element", "cell": cell, "p": {"degree": 3}}})
        R.append({"kind": "qelem", "recipe": {"b": "quadrature_element_vec", "cell": cell, "p": {"degree": 2}}})
    # the vertex scheme next to another rule on facets (both declaration/sort orders)
    for cell in ("triangle", "tetrahedron", "quadrilateral", "hexahedron"):
        for rules in ([["default", 1], ["vertex", 1]], [["vertex", 1], ["default", 2]], [["Gauss-Jacobi", 1], ["vertex", 1], ["default", 3]]):
            for it in ("exterior_facet", "interior_facet"):
                if tier == "quick" and it == "interior_facet" and cell in ("quadrilateral", "hexahedron"):
                    continue
                R.append({"kind": "mix", "recipe": {"b": "rule_mix", "cell": cell, "p": {"rules": rules, "itype": it, "shared": len(rules) == 2}}})
    # user-supplied (custom) rules: symmetric-but-unsorted and non-symmetric point sets, alone and next to a default rule
    for cell in ("interval", "triangle", "quadrilateral", "tetrahedron", "hexahedron"):
        for it in ("cell", "exterior_facet", "interior_facet"):
            if cell == "interval" and it != "cell":
                continue
            for wh in ("unsorted_symmetric", "nonsymmetric"):
                if tier == "quick" and (wh == "nonsymmetric") != (it == "exterior_facet"):
                    continue
                R.append({"kind": "mix", "recipe": {"b": "custom_quadrature", "cell": cell, "p": {"itype": it, "which": wh, "mix": it != "cell"}}})
    # two different one-point rules sharing a coefficient and the coordinates
    for cell in ("interval", "triangle", "quadrilateral", "tetrahedron", "hexahedron"):
        for wh in ("qelem", "custom", "custom_first"):
            R.append({"kind": "mix", "recipe": {"b": "two_one_point_rules", "cell": cell, "p": {"which": wh}}})
        if cell != "interval":
            R.append({"kind": "mix", "recipe": {"b": "two_one_point_rules", "cell": cell, "p": {"which": "custom", "itype": "exterior_facet"}}})
    # a one-point rule and a higher rule sharing a coefficient (selective reduced integration), both declaration orders
    for cell in ("interval", "triangle", "quadrilateral", "tetrahedron", "hexahedron"):
        for lo_first in (True, False):
            for q_lo in (0, 1):
                R.append({"kind": "mix", "recipe": {"b": "one_point_mix", "cell": cell, "p": {"q_hi": 2 + (q_lo + lo_first) % 3, "q_lo": q_lo, "lo_first": lo_first, "degree": 1 + q_lo}}})
        R.append({"kind": "mix", "recipe": {"b": "one_point_mix", "cell": cell, "p": {"itype": "exterior_facet" if cell != "interval" else "cell", "q_hi": 3, "q_lo": 1}}})
    R.append({"kind": "mix", "recipe": {"b": "rule_mix", "cell": "interval", "p": {"rules": [["GLL", 4], ["default", 4]], "shared": True}}})
    R.append({"kind": "mix", "recipe": {"b": "rule_mix", "cell": "quadrilateral", "p": {"rules": [["GLL", 3], ["default", 3]], "shared": False}}})
    # the requested scheme under the sum_factorization option (tensor-product cells): integrands are not polynomial, so a
    # different rule of the same degree is visible
    for cell in ("quadrilateral", "hexahedron"):
        for rules in ([["GLL", 3]], [["GLL", 2], ["default", 4]], [["Gauss-Jacobi", 3]], [["default", 3], ["GLL", 5]]):
            if cell == "hexahedron" and tier == "quick" and len(rules) == 2:
                continue
            for sf in (True, False):
                R.append({"kind": "mix", "recipe": {"b": "tp_rule_mix", "cell": cell, "tpmesh": True, "p": {"rules": rules, "bilinear": len(rules) == 1 and cell == "quadrilateral"}},
                          "options": {"sum_factorization": sf}})
    for i, c in enumerate(R):
        c["seed"] = [s, 1100, i]
    return R


def main(tier, replay=None):
    s = seed()
    run = Run(
        PID, tier, "exploration",
        "enumerated: cells {interval,triangle,quadrilateral,tetrahedron,hexahedron,prism,pyramid} x degree q in {0,1,2,3,5,8,13,21,30} (quick) / 0..30 "
        "(thorough) x arity 0 (and 1: monomial x P1 test functions; exterior facets for q<=12): per (cell,q) kernel, 4-5 monomials with |alpha| = q - deg(phi) "
        "(extremal, spread, random) on 2 random rational affine cells, compared with exact rational closed forms (rel. tol 1e-11 x |alpha|); "
        "GLL / Gauss-Jacobi schemes likewise; polynomial forms without metadata; vertex scheme closed form; rule mixtures (pairs from default 1/2/4/7, vertex, "
        "Gauss-Jacobi, equal rules, 3 rules under one id, facets) and quadrature elements vs the oracle applying each rule to its own integrand; "
        "distinct non-trivial = closed-form / oracle comparisons that ran",
        ["closed forms use only reference vertex coordinates (basix.geometry) and exact rational arithmetic", "pow() of libm is accurate to <1 ulp; all integrands positive (cells shifted into the positive orthant)",
         "rule mixtures use basix.make_quadrature points via the oracle; the discrimination counter shows the swapped-rule reference differs"],
    )
    cases = cases_for(tier, s)
    if replay:
        import json

        cases = [json.load(open(replay))["replay"]["case"]]
    results = run_pool("c11", cases, per_case_timeout=300, chunk=4, deadline=time.time() + wall_budget(tier, 480, 3000))
    for r in results:
        run.add(r)
    run.require("closed_form_ok", 300 if not replay else 0)
    run.require("oracle_ok", 30 if not replay else 0)
    run.require("discriminating", 10 if not replay else 0)
    return run.finish()


if __name__ == "__main__":
    main_wrapper(main)
