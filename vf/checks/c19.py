"""C19 — accepted input always yields valid C; rejected input fails before the compiler.

 compile  : every case of the corpus that ffcx accepts is generated and compiled stand-alone with gcc -std=c17 -Wall
            (-Werror=implicit-function-declaration); a compiler error is a violation (the log is the witness);
 rules    : the quadrature-rule-id injectivity contract, EXHAUSTIVE over all pairs of rules that can meet in one kernel
            (per cell/facet type: schemes default / Gauss-Jacobi / GLL / vertex x degree 0..30): every name that embeds a rule id
            is a function of that id, so two different rules with one id collide; every colliding pair found is really compiled
            (witness) together with a sample of non-colliding pairs;
 reject   : constructs outside the supported fragment must raise a Python exception before any compiler process is launched
            (audit hook on subprocess.Popen); if one is accepted instead, its kernels must agree with the oracle.
"""

from __future__ import annotations

import itertools
import json
import os
import shutil
import subprocess
import sys
import tempfile
import time

import numpy as np

import vf.repoenv  # noqa: F401
from vf.common import wall_budget, HELD, INCONCLUSIVE, VIOLATED, Run, case_hash, main_wrapper, run_pool, seed

PID = "C19"
UNSUPPORTED = [("zero", "triangle"), ("custom_integral", "triangle"), ("cutcell_integral", "triangle"), ("vertex_discontinuous", "triangle"), ("negative_id", "triangle"),
               ("facet_normal_on_prism", "prism"), ("interior_facet_on_prism", "prism"), ("cell_volume_nonaffine", "quadrilateral"), ("circumradius_nonaffine", "hexahedron"),
               ("bessel_I", "triangle"), ("bessel_K", "triangle"), ("bessel_J_real_order", "triangle"), ("bessel_Y_real_order", "interval"), ("three_arguments", "triangle"), ("nonlinear_in_argument", "triangle"), ("expression_two_arguments", "triangle"),
               ("cell_avg", "triangle"), ("facet_avg", "triangle"), ("mixed_real", "triangle")]


def gcc_compile(source, wd, name="k"):
    from vf import execs as E

    src = os.path.join(wd, name + ".c")
    open(src, "w").write(source)
    p = subprocess.run(["gcc", "-std=c17", "-O0", "-c", "-Wall", "-Werror=implicit-function-declaration", "-Werror=implicit-int", "-I", E.include_path(), src, "-o", os.path.join(wd, name + ".o")],
                       capture_output=True, text=True, timeout=600)
    return p.returncode, p.stderr[-3000:]


def run_case(case):
    from vf import corpus
    from vf import execs as E

    kind = case["kind"]
    res = {"evaluations": 0, "counters": {}, "cover": {}, "nontrivial": [], "violations": []}
    cnt = res["counters"]

    def count(k, n=1):
        cnt[k] = cnt.get(k, 0) + n

    def viol(mech, what, extra=None):
        if sum(1 for v in res["violations"] if v["mechanism"] == mech) < 10:
            res["violations"].append({"mechanism": mech, "what": what, "replay": {"case": case, "extra": extra}})
        count("violations_" + mech)

    wd = tempfile.mkdtemp(prefix="c19-", dir=os.environ.get("VF_SCRATCH", "/var/tmp"))
    try:
        if kind == "compile":
            recipe, options = case["recipe"], dict(case.get("options") or {})
            b = corpus.build(recipe)
            objs = b.forms or b.expressions
            try:
                header, source = E.generate_source(objs, options)
            except Exception as e:
                count("rejected_by_ffcx")
                return {"verdict": INCONCLUSIVE, "why": f"not accepted by ffcx ({type(e).__name__}: {str(e)[:80]})", "counters": cnt}
            res["evaluations"] = 1
            count("sources_generated")
            rc, log = gcc_compile(source, wd)
            if rc != 0:
                first = [ln for ln in log.splitlines() if "error" in ln][:2]
                viol("generated-c-does-not-compile", f"{recipe} options={options}: {' | '.join(first)[:300]}", {"log": log[-1500:]})
            else:
                count("compiled_ok")
                if "warning" in log:
                    count("compiled_with_warnings")
                    res["cover"].setdefault("warnings", [])
                    import re

                    res["cover"]["warnings"] = sorted(set(re.findall(r"\[-W[\w-]+\]", log)))
                res["nontrivial"].append(case_hash([recipe, options]))
            # header/source consistency: the header must compile on its own too
            rc2, log2 = gcc_compile(header + "\n", wd, "h")
            if rc2 != 0:
                viol("generated-header-does-not-compile", f"{recipe}: {log2[-300:]}")
            res["cover"]["builder"] = [recipe["b"]]
            res["sample"] = {"kind": "compile", "recipe": recipe, "options": options, "bytes_of_c": len(source), "gcc_rc": rc}
        elif kind == "rules":
            import basix
            import ufl

            from ffcx.ir.representationutils import QuadratureRule, create_quadrature_points_and_weights

            cellname = case["cell"]
            itype = case["itype"]
            cell = ufl.Cell(cellname)
            rules = {}
            for scheme in ("default", "Gauss-Jacobi", "GLL", "vertex"):
                for deg in range(0, 31):
                    if scheme == "vertex":
                        if deg != 1:
                            continue
                        try:
                            ct = basix.CellType[cellname]
                            if itype != "cell":
                                fts = set(basix.cell.subentity_types(ct)[-2])
                                if len(fts) != 1:
                                    continue
                                ct = fts.pop()
                            pts = basix.cell.geometry(ct)
                            wts = np.full(pts.shape[0], basix.cell.volume(ct) / pts.shape[0])
                            rr = {ct.name: (pts, wts)}
                        except Exception:
                            continue
                    else:
                        try:
                            pts, wts, _ = create_quadrature_points_and_weights(itype, cell, deg, scheme, [], False)
                            rr = {k: (pts[k], wts[k]) for k in pts}
                        except Exception:
                            continue
                    for ctn, (p, w) in rr.items():
                        q = QuadratureRule(np.asarray(p), np.asarray(w))
                        hash(q)
                        rules[(ctn, scheme, deg)] = q
            count("rules_enumerated", len(rules))
            keys = sorted(rules)
            collisions = []
            npairs = 0
            for a, b_ in itertools.combinations(keys, 2):
                if a[0] != b_[0]:
                    continue
                npairs += 1
                qa, qb = rules[a], rules[b_]
                same_rule = qa.points.shape == qb.points.shape and np.allclose(qa.points, qb.points) and np.allclose(qa.weights, qb.weights)
                if qa.id() == qb.id() and not same_rule:
                    collisions.append((a, b_, qa.id()))
            count("rule_pairs_checked", npairs)
            res["evaluations"] = npairs
            for a, b_, rid in collisions:
                viol("quadrature-rule-id-collision", f"{cellname}/{itype}: rules {a[1]}/{a[2]} and {b_[1]}/{b_[2]} on {a[0]} are different but share id '{rid}' (names weights_{rid}, FE*_Q{rid}, sp_{rid}_* collide)")
            # witnesses: compile colliding pairs (and a sample of non-colliding pairs, which must compile)
            def compile_pair(a, b_, **kw):
                if a[1] == "vertex" or b_[1] == "vertex" or a[0] != (cellname if itype == "cell" else a[0]):
                    pass
                rc_ = {"b": "two_rules", "cell": cellname, "p": dict({"r1": [a[1], a[2]], "r2": [b_[1], b_[2]], "itype": itype}, **kw)}
                bb = corpus.build(rc_)
                try:
                    header, source = E.generate_source(bb.forms, {})
                except Exception as e:
                    return "generation:" + type(e).__name__ + ": " + str(e)[:100]
                rc, log = gcc_compile(source, wd)
                return "ok" if rc == 0 else "gcc: " + " | ".join([ln for ln in log.splitlines() if "error" in ln][:2])[:200]

            for a, b_, rid in collisions[:4]:
                if cellname == "prism" and itype != "cell":
                    continue
                out = compile_pair(a, b_)
                count("collision_witness_compiles")
                if out != "ok":
                    viol("quadrature-rule-id-collision", f"witness: f*v*d({a[1]}/{a[2]}) + f*f*v*d({b_[1]}/{b_[2]}) on {cellname}/{itype} is accepted but: {out}")
            rng = np.random.default_rng(case["seed"])
            noncol = [(a, b_) for a, b_ in itertools.combinations(keys, 2) if a[0] == b_[0] and rules[a].id() != rules[b_].id() and "vertex" not in (a[1], b_[1])]
            for idx in rng.permutation(len(noncol))[: case.get("sample", 4)]:
                a, b_ = noncol[int(idx)]
                if cellname == "prism" and itype != "cell":
                    continue
                out = compile_pair(a, b_)
                count("noncolliding_pairs_compiled")
                if out != "ok":
                    viol("rule-pair-does-not-compile", f"{cellname}/{itype}: {a[1]}/{a[2]} + {b_[1]}/{b_[2]}: {out}")
                else:
                    res["nontrivial"].append(case_hash([cellname, itype, a, b_]))
            # different rules with the SAME number of points (and, separately, the same degree) in one kernel, same integrand under
            # both: anything ffcx caches per rule by a coarser key than the rule itself (point count, degree) would clash
            twins = [(a, b_) for a, b_ in itertools.combinations(keys, 2) if a[0] == b_[0] and rules[a].id() != rules[b_].id()
                     and (rules[a].points.shape[0] == rules[b_].points.shape[0] or (a[2] == b_[2] and a[1] != b_[1]))]
            count("equal_point_count_or_degree_pairs", len(twins))
            lim = 10 if case.get("sample", 4) <= 3 else 60
            order = [int(i) for i in rng.permutation(len(twins))]
            # smallest rules first (cheap, and the classical clashes: degree 3/4 on a triangle, degree 2 / vertex), then a random sample
            first = sorted(range(len(twins)), key=lambda i: (rules[twins[i][0]].points.shape[0], i))[: lim // 2]
            for i in list(dict.fromkeys(first + order))[:lim]:
                a, b_ = twins[i]
                if cellname == "prism" and itype != "cell":
                    continue
                out = compile_pair(a, b_, same=True, arity=1 + (i % 2))
                count("twin_pairs_compiled")
                if out != "ok":
                    viol("rule-pair-does-not-compile", f"{cellname}/{itype}: the same integrand under {a[1]}/{a[2]} ({rules[a].points.shape[0]} points) and {b_[1]}/{b_[2]} "
                         f"({rules[b_].points.shape[0]} points): {out}")
                else:
                    res["nontrivial"].append(case_hash([cellname, itype, "twin", a, b_]))
            if not collisions:
                res["nontrivial"].append(case_hash([cellname, itype, "pairs", npairs]))
            res["cover"]["cell_itype"] = [f"{cellname}/{itype}"]
            res["sample"] = {"kind": "rules", "cell": cellname, "itype": itype, "rules": len(rules), "pairs": npairs, "collisions": [[list(a), list(b_), rid] for a, b_, rid in collisions[:5]]}
        elif kind == "reject":
            which, cellname = case["which"], case["cell"]
            launched = []

            def hook(event, args):
                if event == "subprocess.Popen":
                    launched.append(str(args[0])[:60])

            sys.addaudithook(hook)
            from vf import harness as H

            res["evaluations"] = 1
            try:
                b = corpus.build({"b": "unsupported", "cell": cellname, "cdeg": 2 if "nonaffine" in which else 1, "p": {"which": which}})
            except BaseException as e:
                count("rejected_by_ufl_at_construction")
                res["nontrivial"].append(case_hash([which, "ufl"]))
                res["cover"]["construct"] = [which + ":UFL-" + type(e).__name__]
                res["verdict"] = HELD
                return res
            try:
                comp = H.jit_forms(b.forms) if b.forms else H.jit_expressions(b.expressions)
                accepted = True
            except BaseException as e:
                accepted = False
                exc = f"{type(e).__name__}: {str(e)[:120]}"
            if not accepted:
                if launched:
                    viol("rejected-after-compiler-launch", f"unsupported construct '{which}' raised {exc} only after launching {launched[:2]}")
                else:
                    count("rejected_before_compiler")
                    res["nontrivial"].append(case_hash([which, "ffcx"]))
                res["cover"]["construct"] = [which + ":" + exc.split(":")[0]]
            else:
                count("accepted_constructs")
                # accepted after all: must compute the right thing
                from vf import valuecheck as VC

                rng = np.random.default_rng(case["seed"])
                bad = False
                for uf, cf in zip(b.forms, comp.objs):
                    try:
                        obs, _, _ = VC.run_form(uf, comp, cf, rng, entity_mode="some", entity_limit=2, perm_mode="zero")
                    except Exception as e:
                        return {"verdict": INCONCLUSIVE, "why": f"'{which}' is accepted by ffcx but the oracle cannot evaluate it: {type(e).__name__}: {str(e)[:80]}"}
                    for o in obs:
                        if o.status == "bad":
                            bad = True
                            viol("unsupported-construct-computes-something-else", f"'{which}' is accepted and {o.itype}/{o.sid} differs from the reference by {o.err:.2e}")
                        elif o.status == "ok":
                            count("accepted_and_correct")
                if not bad:
                    res["nontrivial"].append(case_hash([which, "accepted"]))
                res["cover"]["construct"] = [which + ":accepted"]
            res["sample"] = {"kind": "reject", "construct": which, "accepted": accepted, "compiler_launches": len(launched)}
    finally:
        shutil.rmtree(wd, ignore_errors=True)
    res["cover"]["kind"] = [kind]
    res["verdict"] = VIOLATED if res["violations"] else HELD
    return res


def cases_for(tier, s):
    from vf.checks import c01, c02, c04, c05, c06, c11

    R = []
    pool = c01.curated(tier) + c02.curated(tier) + c01.randoms(30 if tier == "quick" else 600, s) + c02.randoms(30 if tier == "quick" else 600, s)
    pool += c04.cases_for("quick", s)[:: (3 if tier == "quick" else 1)] + c05.cases_for("quick", s)[::3] + c06.cases_for("quick", s)[::3]
    pool += [c for c in c11.cases_for("quick", s) if c["kind"] in ("mix", "qelem")][::2]
    if tier == "quick":
        pool = pool[::2]
    for c in pool:
        R.append({"kind": "compile", "recipe": c["recipe"], "options": c.get("options", {})})
    for st in ("float32", "complex128", "complex64"):
        for bn in ("mathfuns", "conditionals", "stiff_nl", "dg_jump"):
            if bn in ("mathfuns", "conditionals") and "complex" in st:
                continue
            R.append({"kind": "compile", "recipe": {"b": bn, "cell": "triangle"}, "options": {"scalar_type": st}})
    for cell in ("interval", "triangle", "quadrilateral", "tetrahedron", "hexahedron", "prism", "pyramid"):
        R.append({"kind": "rules", "cell": cell, "itype": "cell", "sample": 3 if tier == "quick" else 25})
        if cell not in ("interval", "pyramid"):
            R.append({"kind": "rules", "cell": cell, "itype": "exterior_facet", "sample": 2 if tier == "quick" else 15})
    for which, cell in UNSUPPORTED:
        R.append({"kind": "reject", "which": which, "cell": cell})
    for i, c in enumerate(R):
        c["seed"] = [s, 19, i]
    return R


def main(tier, replay=None):
    s = seed()
    run = Run(
        PID, tier, "exploration",
        "compile: forms/expressions of the C01/C02/C04/C05/C06/C11 corpora (+ scalar types) accepted by ffcx are generated and compiled stand-alone with gcc -std=c17 -Wall; "
        "rules: per cell type and integration entity type, all rules {default, Gauss-Jacobi, GLL} x degree 0..30 + vertex are created by ffcx's own rule factory and ALL pairs "
        "are tested for id injectivity (EXHAUSTIVE), colliding pairs and a sample of other pairs are compiled as f*v*d(r1)+f*f*v*d(r2); reject: 16 unsupported constructs "
        "must raise before any subprocess.Popen (audit hook) or, if accepted, agree with the oracle; distinct non-trivial = compiled modules + rule-pair sets + constructs decided",
        ["gcc 12 -std=c17 is the compiler the JIT uses", "the list of unsupported constructs is hand-written from the reading of the code", "exhaustive applies to rule pairs per (cell, entity type)"],
    )
    cases = cases_for(tier, s)
    if replay:
        cases = [json.load(open(replay))["replay"]["case"]]
    results = run_pool("c19", cases, per_case_timeout=500, chunk=4, deadline=time.time() + wall_budget(tier, 480, 3000))
    for r in results:
        run.add(r)
    run.extra["exhaustive"] = True
    run.require("compiled_ok", 80 if not replay else 0)
    run.require("rule_pairs_checked", 5000 if not replay else 0)
    return run.finish()


if __name__ == "__main__":
    main_wrapper(main)
