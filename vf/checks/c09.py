"""C09 — all four scalar types compute the same form; complex mode is sesquilinear.

For each form: four JIT compiles (float32, float64, complex64, complex128).
 (i) pairwise metamorphic comparison on identical REAL data (geometry packed in the matching real type);
 (ii) each kernel vs the oracle: real types on real data, complex types on COMPLEX coefficient/constant data, the
      oracle evaluating the form in complex arithmetic with UFL's conjugation conventions.
"""

from __future__ import annotations

import itertools
import time

import numpy as np

import vf.repoenv  # noqa: F401
from vf.common import wall_budget, HELD, INCONCLUSIVE, VIOLATED, Run, case_hash, main_wrapper, run_pool, seed

PID = "C09"
TYPES = ["float32", "float64", "complex64", "complex128"]


def run_case(case):
    from vf import corpus
    from vf import harness as H
    from vf import oracle as O
    from vf import valuecheck as VC

    recipe = case["recipe"]
    rng = np.random.default_rng(case.get("seed", [0]))
    res = {"evaluations": 0, "counters": {}, "cover": {}, "nontrivial": [], "violations": []}
    cnt = res["counters"]

    def count(k, n=1):
        cnt[k] = cnt.get(k, 0) + n

    def viol(mech, what, extra=None):
        res["violations"].append({"mechanism": mech, "what": f"{recipe}: {what}", "replay": {"case": case, "extra": extra}})

    b = corpus.build(recipe)
    comps = {}
    for st in TYPES:
        try:
            comps[st] = H.jit_forms(b.forms, {"scalar_type": st})
        except Exception as e:
            if st.startswith("float") and case.get("complex_only"):
                continue
            return {"verdict": INCONCLUSIVE, "why": f"ffcx did not compile {st}: {type(e).__name__}: {str(e)[:140]}"}
    count("compiles", len(comps))
    sample = None
    for fi, uf in enumerate(b.forms):
        # ---- (ii) each type vs oracle
        for st, comp in comps.items():
            obs, desc, orc = VC.run_form(uf, comp, comp.objs[fi], rng, scalar=st, complex_data="complex" in st,
                                         entity_mode="some", entity_limit=4, perm_mode="some", wscale=case.get("wscale", 1.0))
            for o in obs:
                res["evaluations"] += 1
                if o.status == "ok":
                    count("oracle_ok_" + st)
                    if o.maxS > 1e-6:
                        res["nontrivial"].append(VC.obs_hash(recipe, o) + st)
                        if "complex" in st:
                            count("oracle_ok_complex_data_nontrivial")
                elif o.status == "bad":
                    viol("value-mismatch-" + ("complex" if "complex" in st else "real"),
                         f"{st} kernel {o.itype}/{o.sid} entities {o.entities} perms {o.perms}: differs from reference on "
                         f"{'complex' if 'complex' in st else 'real'} data: err={o.err:.3e} > {o.bound:.1e}")
                elif o.status == "unsupported":
                    count("oracle_unsupported")
        # ---- (i) pairwise on identical real data
        if case.get("complex_only"):
            continue
        orc = O.FormOracle(uf, complex_mode=False)
        descs = {st: H.read_form(c.ffi, c.objs[fi]) for st, c in comps.items()}
        ents_by = {st: H.integral_entries(c.ffi, c.objs[fi], descs[st]) for st, c in comps.items()}
        n_entries = {st: len(e) for st, e in ents_by.items()}
        if len(set(n_entries.values())) != 1:
            viol("descriptor-differs-between-types", f"number of integrals differs between scalar types: {n_entries}")
            continue
        for idx in range(n_entries["float64"]):
            itype, sid, k, _ = ents_by["float64"][idx]
            interior = itype == "interior_facet"
            data = H.make_data(rng, orc.coord_element, orc.original_coefficients, orc.constants, interior, False, "affine")
            if case.get("wscale"):
                for cf in data["w"]:
                    data["w"][cf] = {s_: v_ * case["wscale"] for s_, v_ in data["w"][cf].items()}
            edim, nent = orc.entity_info(itype)
            ents = (int(rng.integers(nent)), int(rng.integers(nent)))
            if interior and O.facet_celltype(orc.cellname, ents[0]) != O.facet_celltype(orc.cellname, ents[1]):
                ents = (ents[0], ents[0])
            perms = (0, 0)
            if interior:
                perms = (int(rng.integers(H.facet_perm_count(orc.cellname, ents[0]))), int(rng.integers(H.facet_perm_count(orc.cellname, ents[1]))))
            shape = orc.tensor_shape(itype) or (1,)
            out = {}
            for st, comp in comps.items():
                dt, rdt, _, _ = H.SCALARS[st]
                it2, sid2, k2, itg = ents_by[st][idx]
                if (it2, sid2) != (itype, sid):
                    viol("descriptor-differs-between-types", f"entry {idx}: {(it2, sid2)} vs {(itype, sid)}")
                    continue
                w, _ = H.pack_w(orc.original_coefficients, descs[st]["original_coefficient_positions"], data, interior, dt)
                c = H.pack_c(orc.constants, data, dt)
                x = H.pack_x(data, interior, rdt)
                A = np.zeros(shape, dtype=dt)
                ent = None if itype == "cell" else np.array(ents if interior else ents[:1], dtype=np.intc)
                perm = None if itype == "cell" else np.array(perms if interior else perms[:1], dtype=np.uint8)
                H.call_kernel(comp.ffi, itg, st, A, w, c, x, ent, perm)
                out[st] = A.astype(np.complex128)
                count("kernel_calls")
            ref = out.get("float64")
            if ref is None or not np.all(np.isfinite(ref)):
                continue
            # data are O(1): a tensor below 1e-2 in every entry is compared on the absolute scale of the data (a tensor whose terms
            # all vanish is rounding noise of the narrower type, which is not a disagreement between the types)
            scale = max(float(np.max(np.abs(ref))), 1e-2)
            for a, b_ in itertools.combinations(sorted(out), 2):
                narrow = max(H.EPS[a], H.EPS[b_])
                # single precision: inputs are rounded to float32 before the kernel sees them -> conditioning
                tol = (2e4 if narrow > 1e-10 else 2e3) * narrow
                err = float(np.max(np.abs(out[a] - out[b_]))) / scale
                count("pair_checks")
                if np.max(np.abs(out[a].imag)) > 1e3 * narrow * scale:
                    viol("imaginary-part-on-real-data", f"{a} kernel {itype}/{sid}: imaginary part {np.max(np.abs(out[a].imag)):.2e} on real data")
                if err > tol:
                    viol("types-disagree", f"{itype}/{sid} entities {ents}: {a} vs {b_} differ by {err:.3e} (relative to max) > {tol:.1e} on identical real data")
                else:
                    count("pair_ok")
            if scale > 1e-6:
                res["nontrivial"].append(case_hash([recipe, fi, itype, sid, "pairs"]))
                if sample is None:
                    sample = {"recipe": recipe, "form": str(uf)[:200], "kernel": [itype, sid], "entities": list(ents),
                              "max_abs_float64": scale, "max_rel_diff": {f"{a}-{b_}": float(np.max(np.abs(out[a] - out[b_]))) / scale
                                                                        for a, b_ in itertools.combinations(sorted(out), 2)}}
    res["cover"]["cell"] = [str(recipe.get("cell"))]
    res["cover"]["builder"] = [recipe["b"] + str(recipe.get("p", {}).get("which", ""))]
    res["sample"] = sample
    if res["violations"]:
        res["verdict"] = VIOLATED
    elif cnt.get("pair_ok", 0) + cnt.get("oracle_ok_complex128", 0) == 0:
        res["verdict"] = INCONCLUSIVE
        res["why"] = "nothing compared"
    else:
        res["verdict"] = HELD
    return res


SESQ = [("mass", {}), ("stiff_nl", {}), ("vector_elasticity", {}), ("tensor_space", {}), ("stokes", {}), ("facet_flux", {}),
        ("dg_jump", {}), ("manifold_mass", {}), ("real_space", {}), ("mini", {}), ("curlcurl", {}), ("mixed_poisson", {}), ("dS_piola", {})]


def cases_for(tier, s):
    R = []
    cells = ["triangle", "tetrahedron", "quadrilateral", "interval", "hexahedron"]
    for i, (bname, p) in enumerate(SESQ):
        for cell in (cells[:2] if tier == "quick" else cells):
            if bname in ("mini", "curlcurl", "mixed_poisson", "dS_piola") and cell not in ("triangle", "tetrahedron"):
                continue
            if bname in ("stokes", "tensor_space", "vector_elasticity") and cell == "interval":
                continue
            R.append({"recipe": {"b": bname, "cell": cell, "cdeg": 2 if (cell == "triangle" and i % 2) else 1, "p": p}})
    for which in range(11):
        for cell in ("triangle", "tetrahedron") if tier == "quick" else cells[:3] + ["hexahedron"]:
            R.append({"recipe": {"b": "complex_ops", "cell": cell, "p": {"which": which}}, "complex_only": True})
    n = 24 if tier == "quick" else 400
    its = ["cell", "exterior_facet", "interior_facet"]
    for i in range(n):
        R.append({"recipe": {"b": "rand", "cell": cells[i % 5], "cdeg": 2 if i % 7 == 3 and cells[i % 5] in ("triangle", "quadrilateral") else 1,
                             "p": {"seed": [s, 9, i], "itype": its[(i // 5) % 3], "arity": (i // 3) % 3, "complex_ok": True, "with_md": i % 4 == 0}}})
    for i, c in enumerate(R):
        c["seed"] = [s, 900, i]
    return R


def main(tier, replay=None):
    s = seed()
    run = Run(
        PID, tier, "exploration",
        "cases = sesquilinear curated forms, forms with conj/real/imag/abs/complex literals/complex math functions/derivative in complex mode, "
        "and seeded random sesquilinear forms (cell, exterior and interior facet; arity 0-2); each is compiled 4 times; all 6 type pairs are compared "
        "on identical real data (tolerance 2e3-2e4 eps of the narrower type, relative to max|A|), and each kernel is compared with the oracle (complex "
        "kernels on complex w/c data); distinct non-trivial = compared kernel calls with magnitude > 1e-6",
        ["UFL's sesquilinear convention as implemented by UFL's own lowering with complex_mode=True is the reference",
         "math functions are evaluated away from branch cuts by construction of the generators",
         "float32 inputs are rounded before the call; tolerance accounts for conditioning of the corpus forms (cond<=20 geometry)"],
    )
    cases = cases_for(tier, s)
    if replay:
        import json

        cases = [json.load(open(replay))["replay"]["case"]]
    results = run_pool("c09", cases, per_case_timeout=400, chunk=2, deadline=time.time() + wall_budget(tier, 480, 3000))
    for r in results:
        run.add(r)
    run.require("pair_ok", 100 if not replay else 0)
    run.require("oracle_ok_complex_data_nontrivial", 60 if not replay else 0)
    return run.finish()


if __name__ == "__main__":
    main_wrapper(main)
