"""C14 — concurrent JIT requests on a shared cache all get one complete, correct module.

One case = one history: N fresh processes released together by a barrier request the same forms with the same
cache directory, each with a seeded delay plan over the protocol's file-system events (injected at the audit
events themselves) and a staggered arrival; a second wave follows after completion.  The merged, time-sorted
event log (CLOCK_MONOTONIC) is checked offline: one lock holder, one compiler launch, no load before / without
the ready marker or of a file other than the final shared object, every process returns kernels that agree with
the oracle, nobody fails, the second wave launches no compiler.
"""

from __future__ import annotations

import json
import os
import shutil
import time

import numpy as np

from vf.common import wall_budget, HELD, INCONCLUSIVE, VIOLATED, Run, case_hash, main_wrapper, run_pool, seed

PID = "C14"
EVENTS = ["lock_open", "src_tmp_open", "rename_src", "popen_cc", "popen_link", "marker_open"]
SLEEPS = [0, 0, 0, 0.005, 0.05, 0.5, 2.0]
ARRIVALS = [0, 0, 0, 0.02, 0.2, 0.6, 1.2, 2.5]
REQUESTS = [
    {"recipe": {"b": "mass", "cell": "triangle"}},
    {"recipe": {"b": "stiff_nl", "cell": "interval"}},
    {"recipe": {"b": "two_forms", "cell": "triangle"}},
    {"recipe": {"b": "expr_suite", "cell": "triangle", "p": {"which": "rank0_scalar"}}},
]


# several distinct extra compiler flags, as real callers pass (DOLFINx: ["-O2", "-g0"])
CARGS = ["-O0", "-g0", "-fno-math-errno"]


def run_case(case):
    from vf import jithist as JH

    rng = np.random.default_rng(case["seed"])
    res = {"evaluations": 0, "counters": {}, "cover": {}, "nontrivial": [], "violations": []}
    cnt = res["counters"]

    def count(k, n=1):
        cnt[k] = cnt.get(k, 0) + n

    base = os.environ.get("VF_SCRATCH", "/var/tmp")
    import tempfile

    hdir = tempfile.mkdtemp(prefix="h14-", dir=base)
    try:
        cache = os.path.join(hdir, "cache")
        os.makedirs(cache)
        req = dict(case["request"])
        # make the module unique to this history
        exp_path = os.path.join(hdir, "expected.json")
        with open(exp_path, "w") as f:
            json.dump(JH.expected_for(req["recipe"], seed=int(case["seed"][-1])), f)
        n = case["n"]
        logp = os.path.join(hdir, "events.jsonl")
        env_all = {}
        if case.get("stale_failed"):
            # history before the concurrent wave: one request for the SAME module failed (compiler wrapper made to fail once) and left
            # <mod>.c.failed behind; the cause is gone when the wave starts.  Nothing fails during the wave itself.
            from vf.checks.c15 import cc_wrapper

            w = cc_wrapper(hdir)
            env_all = {"CC": w}
            flag = os.path.join(hdir, "FAIL_CC")
            open(flag, "w").close()
            pre = JH.launch({"role": "pre", "cache_dir": cache, "request": req, "timeout": 10, "log": os.path.join(hdir, "pre-events.jsonl"), "compile_args": CARGS},
                            hdir, "pre", env_extra=dict(env_all, PYTHONHASHSEED="7"))
            JH.wait_all([pre], watchdog=200)
            os.unlink(flag)
            stale = [f for f in os.listdir(cache) if f.endswith(".failed")]
            if not stale:
                return {"verdict": INCONCLUSIVE, "why": "the preparatory failing request left no .failed file"}
            count("histories_with_stale_failed_marker")
        t0 = time.time() + 3.0 + 0.15 * n  # allow all interpreters to import
        procs = []
        plans = []
        for i in range(n):
            plan = {}
            for ev in EVENTS:
                d = float(SLEEPS[int(rng.integers(len(SLEEPS)))])
                if d:
                    plan[ev] = d
            spec = {"role": f"p{i}", "cache_dir": cache, "request": req, "timeout": 120, "t0": t0, "log": logp, "expected": exp_path,
                    "start_delay": float(ARRIVALS[int(rng.integers(len(ARRIVALS)))]), "delay_plan": plan,
                    "compile_args": CARGS}
            plans.append({"role": spec["role"], "start_delay": spec["start_delay"], "delays": plan})
            # every process has its own string-hash seed, as separately started interpreters do
            procs.append(JH.launch(spec, hdir, f"p{i}", env_extra=dict(env_all, PYTHONHASHSEED=str(i) if i % 4 else "random"), strace=bool(case.get("strace"))))
        rcs = JH.wait_all(procs, watchdog=240)
        # second wave
        late = []
        for j in range(case.get("late", 1)):
            spec = {"role": f"late{j}", "cache_dir": cache, "request": req, "timeout": 120, "log": logp, "expected": exp_path, "compile_args": CARGS}
            late.append(JH.launch(spec, hdir, f"late{j}", env_extra=dict(env_all, PYTHONHASHSEED=str(100 + j))))
        rcs2 = JH.wait_all(late, watchdog=120)
        events = JH.read_log(logp)
        res["evaluations"] = n + len(late)
        if any(r is None for r in rcs + rcs2):
            return {"verdict": INCONCLUSIVE, "why": "watchdog fired (wall clock is never a verdict)"}
        rets = [e for e in events if e["ev"] == "return"]
        if len(rets) != n + len(late):
            errs = ""
            for fn in sorted(os.listdir(hdir)):
                if fn.startswith("err-"):
                    t = open(os.path.join(hdir, fn)).read()[-300:]
                    if t.strip():
                        errs += fn + ": " + t + " | "
            return {"verdict": INCONCLUSIVE, "why": f"only {len(rets)} of {n + len(late)} processes reported a return: {errs[:300]}"}
        count("processes", n + len(late))
        count("protocol_events", sum(1 for e in events if e["ev"] == "proto"))
        V = JH.check_no_fault_history(events, cache)
        # second wave: reuse without compiling
        for e in events:
            if e["role"].startswith("late"):
                if e["ev"] == "proto" and e["key"] in ("popen_cc", "popen_link"):
                    V.append(("later-request-recompiled", f"{e['role']} launched the compiler although the module was cached"))
                if e["ev"] == "return" and e["status"] == "returned" and not e.get("from_cache"):
                    V.append(("later-request-recompiled", f"{e['role']} did not take the module from the cache"))
        if case.get("strace"):
            # kernel-level cross-check: per process, the order of protocol system calls must equal the order of the audit events,
            # exactly one exclusive create of the lock may succeed, and no process opens the .so before the marker was created
            role_pid = {e["role"]: e["pid"] for e in events if e["ev"] == "start"}
            allsys = []
            for i in range(n):
                sysev = JH.parse_strace(os.path.join(hdir, f"strace-p{i}.txt"), cache)
                allsys += sysev
                main = role_pid.get(f"p{i}")
                want = [e["key"] for e in events if e["ev"] == "proto" and e["role"] == f"p{i}" and e["key"] in ("lock_open", "src_tmp_open", "rename_src", "popen_cc", "popen_link", "marker_open")]
                got = [k for (_, pid_, k, ok_) in sysev if k in ("lock_open", "src_tmp_open", "rename_src", "popen_cc", "popen_link", "marker_open") and (k not in ("popen_cc", "popen_link") or True)]
                # execve by gcc's own children (cc1, as, collect2) are filtered in parse_strace; compare de-duplicated order
                dedup = [k for j, k in enumerate(got) if j == 0 or got[j - 1] != k]
                count("strace_processes")
                if dedup != want:
                    V.append(("audit-log-disagrees-with-strace", f"p{i}: audit events {want} but system calls {dedup}"))
                else:
                    count("strace_order_agrees")
            nlock = sum(1 for (_, _, k, ok_) in allsys if k == "lock_open" and ok_)
            if nlock != 1:
                V.append(("lock-not-exclusive", f"strace: {nlock} successful O_EXCL creations of the lock file"))
            tm = [t for (t, _, k, ok_) in allsys if k == "marker_open" and ok_]
            bpid = [p for (_, p, k, ok_) in allsys if k == "lock_open" and ok_]
            if tm:
                early = [(t, p) for (t, p, k, _) in allsys if k == "so_open" and t < min(tm) and p not in bpid]
                if early:
                    V.append(("load-before-marker", f"strace: process(es) {sorted({p for _, p in early})} opened the shared object before the marker was created"))
            count("strace_histories")
        for mech, text in V:
            res["violations"].append({"mechanism": mech, "what": f"N={n} request={req['recipe']['b']}: {text}",
                                      "replay": {"case": case, "plans": plans, "events": [e for e in events if e["ev"] != "start"][:200]}})
        sig = JH.interleaving_signature(events)
        res["cover"]["interleaving"] = [case_hash(sig)]
        res["cover"]["n_processes"] = [str(n)]
        res["cover"]["request"] = [req["recipe"]["b"]]
        waiters = [e for e in events if e["ev"] == "lock_result" and e["outcome"] == "loaded_existing" and not e["role"].startswith("late")]
        count("waiters_that_found_lock_held", len(waiters))
        # where did waiters arrive relative to the builder's phases?
        bev = {e["key"]: e["t"] for e in events if e["ev"] == "proto" and e["key"] in EVENTS and any(
            b["pid"] == e["pid"] for b in events if b["ev"] == "lock_result" and b["outcome"] == "builder")}
        for e in events:
            if e["ev"] == "proto" and e["key"] == "lock_open" and e["t"] > bev.get("lock_open", 1e99):
                phase = "after_marker"
                for k in ["rename_src", "popen_cc", "popen_link", "marker_open"]:
                    if k in bev and e["t"] < bev[k]:
                        phase = "before_" + k
                        break
                res["cover"].setdefault("arrival_phase", []).append(phase)
        if not V:
            res["nontrivial"].append(case_hash(sig))
        res["sample"] = {"n": n, "request": req["recipe"], "plans": plans[:3], "history_head": [[e["role"], e.get("key") or e["ev"], round(e["t"] - events[0]["t"], 3)] for e in events if e["ev"] in ("proto", "lock_result", "return")][:14]}
    finally:
        shutil.rmtree(hdir, ignore_errors=True)
    res["verdict"] = VIOLATED if res["violations"] else HELD
    return res


def cases_for(tier, s):
    R = []
    ns = [2, 3, 4, 8, 16]
    n_hist = 40 if tier == "quick" else 600
    for i in range(n_hist):
        n = ns[i % 5] if tier == "thorough" or i % 5 != 4 or i < 10 else 4
        R.append({"n": n, "request": REQUESTS[i % len(REQUESTS)], "late": 1 + (i % 3 == 0), "seed": [s, 14, i],
                  "strace": (i % 10 == 1) if tier == "quick" else (i % 8 == 1), "stale_failed": i % 6 == 2})
    return R


def main(tier, replay=None):
    s = seed()
    run = Run(
        PID, tier, "exploration",
        "one case = one history of N in {2,3,4,8,16} fresh processes released by a barrier on one cache directory, each with seeded delays (0..2 s) "
        "injected at the protocol's audit events (exclusive create of <mod>.c, source rename, compiler launch, link launch, marker create) and staggered arrival "
        "(0..2.5 s), request kinds {one form, two forms, expression}, followed by a second wave; the merged CLOCK_MONOTONIC event log is checked offline "
        "(single lock holder, single compiler launch, no load before/without the marker or of a non-final shared object, all kernels equal the oracle, no "
        "failure, second wave reuses); distinct non-trivial = distinct interleavings (canonical order of (role,event) pairs) that were checked clean",
        ["granularity = the protocol's file-system events as seen by sys.addaudithook; scheduling below that is not controlled",
         "local file system with atomic O_EXCL (NFS semantics out of reach)", "a tenth of the histories also run under strace -f: the kernel-level order of the protocol system calls must equal the audit log per process", "waiters poll once per second (ffcx's own loop); timeout=120 polls, outer watchdog firing => inconclusive"],
    )
    cases = cases_for(tier, s)
    if replay:
        cases = [json.load(open(replay))["replay"]["case"]]
    # histories use up to 16 processes each: run few at a time
    results = run_pool("c14", cases, per_case_timeout=420, chunk=1, nproc=4, deadline=time.time() + wall_budget(tier, 540, 3300))
    for r in results:
        run.add(r)
    run.extra["distinct_interleavings"] = len(run.coverage_sets.get("interleaving", ()))
    run.require("waiters_that_found_lock_held", 20 if not replay else 0)
    run.require("protocol_events", 200 if not replay else 1)
    return run.finish()


if __name__ == "__main__":
    main_wrapper(main)
