"""C07 — kernels accumulate into A and are pure functions of their inputs; thread-safe.

Scripted call histories in the E-san driver (one process per module):
 (a) A0 = 0, random, 1e6*random: T = A - A0 must not depend on A0 (beyond the rounding of A0+T);
 (b) k(x1); k(x2); k(x1): first and third result bitwise equal (no state carried between calls);
 (c) inputs live in read-only pages flush against guard pages: any write to an input is a SIGSEGV;
 (d) clang TSan build: 8 threads x N calls on shared read-only inputs, disjoint A: zero reports and every
     thread's result bitwise equal to the sequential result;
 (e) text monitor on the emitted kernels: A is only updated with '+=' and no mutable static storage.
"""

from __future__ import annotations

import os
import re
import shutil
import time

import numpy as np

import vf.repoenv  # noqa: F401
from vf.common import wall_budget, HELD, INCONCLUSIVE, VIOLATED, Run, case_hash, main_wrapper, run_pool, seed

PID = "C07"


def kernel_bodies(source):
    """Bodies of all tabulate_tensor functions (brace matching; comments stripped first)."""
    src = re.sub(r"//[^\n]*", "", source)
    src = re.sub(r"/\*.*?\*/", "", src, flags=re.S)
    out = []
    for m in re.finditer(r"void tabulate_tensor_\w+\([^)]*\)\s*\{", src):
        depth, i = 1, m.end()
        while depth and i < len(src):
            ch = src[i]
            depth += ch == "{"
            depth -= ch == "}"
            i += 1
        out.append(src[m.end(): i - 1])
    return out


def text_monitor(source):
    """Returns list of problems found in the emitted kernels' text."""
    probs = []
    bodies = kernel_bodies(source)
    n_upd = 0
    for body in bodies:
        code = re.sub(r"//[^\n]*", "", body)
        for m in re.finditer(r"\bstatic\b(?!\s+const)[^;]*;", code):
            probs.append("mutable static storage in kernel: " + m.group(0)[:80])
        for m in re.finditer(r"^\s*A\s*\[[^\n;]*?\]\s*(\S?=)", code, re.M):
            if m.group(1) != "+=":
                probs.append("A updated with '" + m.group(1) + "': " + m.group(0).strip()[:80])
            else:
                n_upd += 1
        if re.search(r"\bmemset\s*\(\s*A\b|\bA\s*=\s", code):
            probs.append("A reset/reassigned in kernel")
    return probs, len(bodies), n_upd


def run_case(case):
    from vf import corpus
    from vf import execs as E
    from vf import harness as H
    from vf.checks import c08

    recipe = case["recipe"]
    options = dict(case.get("options") or {})
    scalar = options.get("scalar_type", "float64")
    dt = H.SCALARS[scalar][0]
    eps = H.EPS[scalar]
    rng = np.random.default_rng(case.get("seed", [0]))
    res = {"evaluations": 0, "counters": {}, "cover": {}, "nontrivial": [], "violations": []}
    cnt = res["counters"]

    def count(k, n=1):
        cnt[k] = cnt.get(k, 0) + n

    def viol(mech, what, extra=None):
        res["violations"].append({"mechanism": mech, "what": f"{recipe}: {what}", "replay": {"case": case, "extra": extra}})

    b = corpus.build(recipe)
    objs = b.forms or b.expressions
    try:
        header, source = E.generate_source(objs, options)
    except Exception as e:
        return {"verdict": INCONCLUSIVE, "why": f"ffcx did not generate code: {type(e).__name__}: {str(e)[:160]}"}
    probs, nbodies, nupd = text_monitor(source)
    count("text_kernels_scanned", nbodies)
    count("text_A_updates_seen", nupd)
    for p in probs:
        viol("text-monitor", p)
    wd = H.scratch_dir("c07")
    try:
        def records(guard):
            if b.forms:
                recs, meta = c08.form_records(b, header, source, options, np.random.default_rng(case.get("seed", [0])), max_pairs=2, perm_mode="some", guard=guard)
            else:
                recs, meta = c08.expr_records(b, header, options, np.random.default_rng(case.get("seed", [0])), guard=guard)
            # keep at most 3 entity/perm combos per kernel
            seen = {}
            keep = []
            for r, m in zip(recs, meta):
                key = (m[0], m[3])
                seen[key] = seen.get(key, 0) + 1
                if seen[key] <= 3:
                    keep.append((r, m))
            return keep

        # ---------------- guard build: (a) (b) (c)
        drv = E.Driver(os.path.join(wd, "guard"), header, source, variant="guard")
        if drv.build_rc != 0:
            return {"verdict": INCONCLUSIVE, "why": "driver build failed", "log": drv.build_log[-1200:]}
        keep = records(True)
        script = []
        plan = []
        for r, m in keep:
            n = r["A0"].size
            cm = np.iscomplexobj(np.zeros(1, dtype=dt))
            rnd = lambda s_: (rng.uniform(-1, 1, n) + (1j * rng.uniform(-1, 1, n) if cm else 0)) * s_  # noqa: E731
            A0s = [np.zeros(n), rnd(1.0), rnd(1e6)]
            # perturbed inputs x2
            r2 = dict(r)
            r2["w"] = r["w"] * 0.5 + 0.25
            r2["c"] = r["c"] * 0.5 - 0.25
            r2["x"] = r["x"] * 1.0
            base = len(script)
            for A0 in A0s:
                script.append(dict(r, A0=A0.astype(dt)))
            script.append(dict(r2, A0=np.zeros(n, dtype=dt)))
            script.append(dict(r, A0=np.zeros(n, dtype=dt)))
            plan.append((base, m, A0s))
        rc, err, outs = drv.run(script, timeout=600)
        res["evaluations"] += len(script)
        count("calls_guard", len(script))
        if rc is None:
            return {"verdict": INCONCLUSIVE, "why": "driver timeout"}
        if rc != 0 or "VF_DRIVER_OK" not in err:
            viol("input-written-or-out-of-extent", f"guard-page run died (rc={rc}): inputs are read-only and buffers exact: {E.classify_sanitizer_report(err) or err[-300:]}")
        else:
            count("readonly_input_runs", len(script))
            for base, m, A0s in plan:
                T0 = outs[base][0].astype(np.complex128) - A0s[0]
                scale = max(float(np.max(np.abs(T0))), 1e-300)
                if not np.all(np.isfinite(T0)):
                    count("nonfinite_T")
                    continue
                for j in (1, 2):
                    Tj = outs[base + j][0].astype(np.complex128) - A0s[j].astype(dt).astype(np.complex128)
                    tol = 1024 * eps * (np.abs(A0s[j]) + scale) + 1e-300  # A is updated once per quadrature point/term: rounding ~ n_updates*eps*|A0|
                    bad = np.abs(Tj - T0) > tol
                    count("accumulate_checks")
                    if np.any(bad):
                        i = int(np.argmax(np.abs(Tj - T0) / tol))
                        viol("result-depends-on-A", f"kernel {m[:6]}: A-A0 depends on A0: T(A0=0)[{i}]={T0[i]} but T(A0 random x{[1, 1, 1e6][j]:g})[{i}]={Tj[i]} (|A0|={abs(A0s[j][i]):.3g})")
                        break
                first, third = outs[base][0], outs[base + 4][0]
                count("repeat_checks")
                if first.tobytes() != third.tobytes():
                    viol("result-depends-on-history", f"kernel {m[:6]}: same inputs gave different bits after an intervening call with other inputs")
                else:
                    res["nontrivial"].append(case_hash([recipe, options, m[1], m[2], m[3], m[4], m[5], "seq"]))
                if np.max(np.abs(T0)) > 0:
                    count("nonzero_T")
        # ---------------- TSan build: (d)
        if case.get("tsan", True):
            drv_t = E.Driver(os.path.join(wd, "tsan"), header, source, variant="tsan")
            if drv_t.build_rc != 0:
                count("tsan_build_failed")
            else:
                keep_t = records(False)[: case.get("tsan_kernels", 4)]
                script = []
                for r, m in keep_t:
                    script.append(dict(r, reps=1, threads=0))
                    script.append(dict(r, reps=case.get("tsan_reps", 100), threads=8))
                for rep in range(case.get("tsan_runs", 2)):
                    rc, err, outs = drv_t.run(script, timeout=600, tag=f"t{rep}")
                    res["evaluations"] += len(script)
                    count("tsan_runs")
                    if rc is None:
                        count("tsan_timeouts")
                        continue
                    kind = E.classify_sanitizer_report(err or "")
                    if kind or rc != 0:
                        viol("data-race", f"TSan run {rep}: {kind or 'rc=' + str(rc)}", {"report": (err or "")[-2500:]})
                        break
                    for i, (r, m) in enumerate(keep_t):
                        seq = outs[2 * i][0]
                        count("thread_result_checks", len(outs[2 * i + 1]))
                        if any(a.tobytes() != seq.tobytes() for a in outs[2 * i + 1]):
                            viol("threaded-result-differs", f"kernel {m[:6]}: a thread's result differs from the sequential result")
                        else:
                            res["nontrivial"].append(case_hash([recipe, options, m[1], m[2], m[3], m[4], m[5], "thr"]))
                    count("tsan_clean_runs")
        if "sample" not in res and plan:
            base, m, A0s = plan[0]
            res["sample"] = {"recipe": recipe, "kernel": [m[1], m[2], m[3]], "entities": list(m[4]),
                             "history": ["k(x1,A0=0)", "k(x1,A0=rand)", "k(x1,A0=1e6*rand)", "k(x2)", "k(x1)"],
                             "threads": 8, "tsan_reports": 0}
    finally:
        shutil.rmtree(wd, ignore_errors=True)
    res["cover"]["cell"] = [str(recipe.get("cell"))]
    res["cover"]["builder"] = [recipe["b"]]
    if res["violations"]:
        res["verdict"] = VIOLATED
    elif cnt.get("repeat_checks", 0) == 0:
        res["verdict"] = INCONCLUSIVE
        res["why"] = "no call history completed"
    else:
        res["verdict"] = HELD
    return res


def cases_for(tier, s):
    from vf.checks import c08

    base = c08.cases_for(tier, s)
    if tier == "quick":
        base = base[::2]
    # large element blocks (more than 32 / 64 dofs per argument): big work arrays, long inner loops
    base = [{"recipe": {"b": "mass", "cell": "tetrahedron", "p": {"degree": 4}}}, {"recipe": {"b": "mass", "cell": "hexahedron", "p": {"degree": 3}}},
            {"recipe": {"b": "stiff_nl", "cell": "triangle", "p": {"degree": 7}}}, {"recipe": {"b": "mass", "cell": "quadrilateral", "p": {"degree": 6}}}] + base
    out = []
    for i, c in enumerate(base):
        c = {k: v for k, v in c.items() if k in ("recipe", "options")}
        c["seed"] = [s, 700, i]
        c["tsan"] = (i % 2 == 0) if tier == "quick" else True
        c["tsan_runs"] = 2 if tier == "quick" else 5
        c["tsan_reps"] = 100 if tier == "quick" else 200
        out.append(c)
    return out


def main(tier, replay=None):
    s = seed()
    run = Run(
        PID, tier, "exploration",
        "cases = kernels of every kind (cell/facet/vertex/expression; licm temporaries, sum factorisation, several rules, diagonal) from the "
        "C01/C02/C04 corpora; per kernel and up to 3 entity/permutation combos the driver runs the history k(x1,A0=0), k(x1,A0=rand), "
        "k(x1,A0=1e6 rand), k(x2), k(x1) with inputs in read-only guard-paged memory, then a clang-TSan build runs 8 threads x 100-200 calls "
        "on shared inputs and disjoint A (repeated 2-5 times); distinct non-trivial = (recipe, kernel, entity, perm) whose sequential "
        "history / threaded run completed and was compared",
        ["gcc -O2 guard build and clang TSan build of the same generated source", "TSan sees only the interleavings the 8 threads produced",
         "A is updated many times per call (per quadrature point/term), so the accumulate comparison allows |dT| <= 1024 eps (|A0|+max|T|); a dependence on A0 smaller than that is not observable"],
    )
    cases = cases_for(tier, s)
    if replay:
        import json

        cases = [json.load(open(replay))["replay"]["case"]]
    results = run_pool("c07", cases, per_case_timeout=400, chunk=2, deadline=time.time() + wall_budget(tier, 480, 3000))
    for r in results:
        run.add(r)
    run.require("repeat_checks", 50 if not replay else 1)
    run.require("accumulate_checks", 100 if not replay else 1)
    run.require("tsan_clean_runs", 10 if not replay else 0)
    run.require("text_A_updates_seen", 50 if not replay else 1)
    return run.finish()


if __name__ == "__main__":
    main_wrapper(main)
