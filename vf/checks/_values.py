"""Common worker body for value checks: build recipe -> JIT through real ffcx with stage
monitors on -> call every kernel via the descriptor -> compare with the oracle."""

from __future__ import annotations

import traceback

import numpy as np

import vf.repoenv  # noqa: F401
from vf import corpus
from vf import harness as H
from vf import monitors as M
from vf import oracle as O
from vf import valuecheck as VC
from vf.common import HELD, INCONCLUSIVE, VIOLATED, case_hash

GEOM_DEFAULT = {"affine": ("affine",), "both": ("affine", "nonaffine"), "nonaffine": ("nonaffine",)}


def geom_kinds_for(recipe, want=None):
    if want:
        return tuple(want)
    if recipe.get("cdeg", 1) > 1 or recipe.get("cell") in ("quadrilateral", "hexahedron"):
        return ("affine", "nonaffine")
    return ("affine",)


def run_value_case(case, itype_filter=None, extra_monitors=None):
    recipe = case["recipe"]
    options = dict(case.get("options") or {})
    scalar = options.get("scalar_type", "float64")
    rng = np.random.default_rng(case.get("seed", [0]))
    res = {"evaluations": 0, "counters": {}, "cover": {}, "nontrivial": [], "violations": []}
    cnt = res["counters"]

    def count(k, n=1):
        cnt[k] = cnt.get(k, 0) + n

    try:
        b = corpus.build(recipe)
    except Exception as e:
        return {"verdict": INCONCLUSIVE, "why": f"recipe does not build: {type(e).__name__}: {str(e)[:150]}"}
    forms = b.forms
    if not forms:
        return {"verdict": INCONCLUSIVE, "why": "recipe has no forms"}
    compile_error = None
    stage = M.StageMonitors(complex_values="complex" in str((options or {}).get("scalar_type", ""))) if case.get("stage_monitors") else None
    try:
        with M.table_delta() as td:
            if stage:
                with stage:
                    comp = H.jit_forms(forms, options)
            else:
                comp = H.jit_forms(forms, options)
    except Exception as e:
        compile_error = f"{type(e).__name__}: {str(e)[:300]}"
        tb = traceback.format_exc()[-1500:]
    if compile_error:
        if case.get("expect_compile", True):
            # accepted-fragment input that ffcx does not compile: reported under C19 by that check;
            # for value checks the deciding monitor was not reached.
            return {"verdict": INCONCLUSIVE, "why": "ffcx did not compile: " + compile_error[:160], "log": tb}
        return {"verdict": INCONCLUSIVE, "why": "rejected: " + compile_error[:120]}
    count("kernels_built", sum(H.read_form(comp.ffi, f)["offsets"][5] for f in comp.objs))
    count("table_clamp_calls", td.clamp_calls)
    worst = 0.0
    n_unsup = 0
    status_seen = set()
    nodes = set()
    sample = None
    for uf, cf in zip(forms, comp.objs):
        try:
            obs, desc, orc = VC.run_form(
                uf,
                comp,
                cf,
                rng,
                scalar=scalar,
                geom_kinds=geom_kinds_for(recipe, case.get("geom")),
                n_data=case.get("n_data", 1),
                entity_mode=case.get("entity_mode", "all"),
                entity_limit=case.get("entity_limit", 12),
                perm_mode=case.get("perm_mode", "some"),
                sum_factorization=bool(options.get("sum_factorization", False)),
                diagonal=options.get("part") == "diagonal",
                only=itype_filter,
                delta=td.delta,
                wscale=case.get("wscale", 1.0),
                data_fixed=case.get("data_fixed"),
            )
        except O.Unsupported as e:
            return {"verdict": INCONCLUSIVE, "why": f"oracle unsupported: {e}"}
        nodes |= orc.nodes_seen
        for o in obs:
            res["evaluations"] += 1
            count("kernel_calls")
            status_seen.add(o.status)
            if o.status == "unsupported":
                n_unsup += 1
                count("oracle_unsupported")
                res.setdefault("unsup_reason", str(o.info)[:100])
                continue
            if o.status == "degenerate":
                count("degenerate_reference")
                continue
            worst = max(worst, o.err)
            if o.status == "ok":
                count("compared_ok")
                if o.maxS > 1e-6:
                    res["nontrivial"].append(VC.obs_hash(recipe, o) + scalar)
                    count("compared_ok_nontrivial")
            elif o.status == "grey":
                count("grey_band")
            else:
                res["violations"].append(
                    {
                        "mechanism": "value-mismatch",
                        "what": f"{recipe['b']} on {recipe.get('cell')} {o.itype} id={o.sid} entities={o.entities} "
                        f"perms={o.perms} geom={o.geom} {scalar}: kernel differs from reference, "
                        f"err={o.err:.3e} > bound={o.bound:.1e} (|R|max={o.maxR:.3e})",
                        "replay": {"case": case, "obs": {k: v for k, v in o.as_dict().items()}},
                    }
                )
            if sample is None and o.status == "ok" and o.maxS > 1e-6:
                sample = {
                    "recipe": recipe,
                    "form": str(uf)[:300],
                    "itype": o.itype,
                    "id": o.sid,
                    "entities": o.entities,
                    "perms": o.perms,
                    "err_rel": o.err,
                    "bound": o.bound,
                    "max_abs_reference": o.maxR,
                    "rules": o.info,
                    "scalar": scalar,
                }
    if stage:
        for k, v in stage.counters.items():
            count(k, v)
        res["violations"] += stage.violations
    res["cover"]["cell"] = [str(recipe.get("cell"))]
    res["cover"]["builder"] = [recipe["b"]]
    res["cover"]["oracle_nodes"] = sorted(nodes)
    res["cover"]["tuple"] = [
        f"{recipe.get('cell')}|{recipe['b']}|cdeg{recipe.get('cdeg', 1)}|g{recipe.get('gdim')}|{scalar}"
    ]
    if getattr(b, "tags", None):
        res["cover"]["gen_tags"] = b.tags
    res["sample"] = sample
    res["worst"] = worst
    if res["violations"]:
        res["verdict"] = VIOLATED
    elif cnt.get("compared_ok", 0) == 0:
        res["verdict"] = INCONCLUSIVE
        res["why"] = "no kernel call was compared (" + ",".join(sorted(status_seen)) + ") " + res.get("unsup_reason", "")
    elif cnt.get("grey_band") or n_unsup:
        res["verdict"] = HELD if cnt.get("compared_ok", 0) else INCONCLUSIVE
    else:
        res["verdict"] = HELD
    return res


def h(x):
    return case_hash(x)
