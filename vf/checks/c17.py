"""C17 — AST simplifications and optimiser passes preserve the computed values.

 matrix   : exhaustive operand-kind matrix (int/float/complex literals 0, 1, -1, k; INT/REAL/SCALAR symbols; Neg; Sum; Product; Sub; Div;
            ArrayAccess; MathFunction) squared x {+,-,*,/} direct and reflected (Python number on the left) plus negation, float_product and
            MultiIndex.global_index: the tree built through the overloaded operators must evaluate (AST interpreter) to plain arithmetic on the
            operand values, for several random finite value assignments;
 optimize : wrapper on the real optimizer.optimize calls made while the corpus compiles: the body before (deep copy) and after the passes
            (section fusion, loop fusion, loop-invariant hoisting) is interpreted under one lazy deterministic environment: identical writes;
 kernels  : whole kernels generated with the passes disabled (identity in place of optimize) vs the normal kernels vs the oracle.
"""

from __future__ import annotations

import copy
import itertools
import json
import time

import numpy as np

import vf.repoenv  # noqa: F401
from vf.common import wall_budget, HELD, INCONCLUSIVE, VIOLATED, Run, case_hash, main_wrapper, run_pool, seed

PID = "C17"


def operand_kinds(L, rng):
    R, I, S = L.DataType.REAL, L.DataType.INT, L.DataType.SCALAR
    a, b, i, s = L.Symbol("a", R), L.Symbol("b", R), L.Symbol("i", I), L.Symbol("s", S)
    arr = L.Symbol("arr", R)
    x = float(np.round(rng.uniform(0.5, 3.0), 3))
    k = int(rng.integers(2, 7))
    K = {
        "int0": lambda: L.LiteralInt(0), "int1": lambda: L.LiteralInt(1), "int-1": lambda: L.LiteralInt(-1), "intk": lambda: L.LiteralInt(k), "int-k": lambda: L.LiteralInt(-k),
        "f0": lambda: L.LiteralFloat(0.0), "f1": lambda: L.LiteralFloat(1.0), "f-1": lambda: L.LiteralFloat(-1.0), "fx": lambda: L.LiteralFloat(x), "f-x": lambda: L.LiteralFloat(-x),
        "f-0": lambda: L.LiteralFloat(-0.0), "cplx": lambda: L.LiteralFloat(complex(x, -0.5)), "cplx1": lambda: L.LiteralFloat(complex(1.0, 0.0)),
        "symR": lambda: a, "symI": lambda: i, "symS": lambda: s,
        "neg": lambda: L.Neg(b), "negneg": lambda: L.Neg(L.Neg(a)), "sum": lambda: L.Sum([a, b]), "product": lambda: L.Product([a, b, L.LiteralFloat(2.0)]),
        "sub": lambda: L.Sub(a, b), "div": lambda: L.Div(a, L.LiteralFloat(4.0)), "access": lambda: L.ArrayAccess(arr, [i]),
        "fn": lambda: L.MathFunction("cos", [a]), "add0": lambda: L.Add(a, L.LiteralFloat(0.0)), "mul": lambda: L.Mul(b, L.LiteralInt(3)),
        "pyint0": lambda: 0, "pyint1": lambda: 1, "pyint-1": lambda: -1, "pyintk": lambda: k, "pyf0": lambda: 0.0, "pyf1": lambda: 1.0, "pyf-1": lambda: -1.0, "pyfx": lambda: x,
        # numpy scalars are numbers.Integral / numbers.Real too (tables and weights reach the overloads as numpy values);
        # np.float32 is refused by LiteralFloat's own assertion (a rejection, not a wrong tree) and is not an operand kind here
        "pynpf0": lambda: np.float64(0.0), "pynpf1": lambda: np.float64(1.0), "pynpf-1": lambda: np.float64(-1.0), "pynpfx": lambda: np.float64(x),
        "pynpi0": lambda: np.int64(0), "pynpi1": lambda: np.int32(1), "pynpi-1": lambda: np.int64(-1), "pynpik": lambda: np.int64(k),
        "pynpf-0": lambda: np.float64(-0.0),
    }
    return K


def run_case(case):
    kind = case["kind"]
    rng = np.random.default_rng(case["seed"])
    res = {"evaluations": 0, "counters": {}, "cover": {}, "nontrivial": [], "violations": []}
    cnt = res["counters"]

    def count(k, n=1):
        cnt[k] = cnt.get(k, 0) + n

    def viol(mech, what, extra=None):
        if sum(1 for v in res["violations"] if v["mechanism"] == mech) < 8:
            res["violations"].append({"mechanism": mech, "what": what, "replay": {"case": case, "extra": extra}})
        count("violations_" + mech)

    import ffcx.codegeneration.lnodes as L

    from vf.astinterp import Array, AstError, Interp, Unsupported

    if kind == "matrix":
        K = operand_kinds(L, rng)
        names = list(K)
        ops = {"+": lambda x, y: x + y, "-": lambda x, y: x - y, "*": lambda x, y: x * y, "/": lambda x, y: x / y}
        for draw in range(case.get("draws", 3)):
            env = {"a": float(rng.uniform(-2, 2)), "b": float(rng.uniform(0.3, 2) * (-1) ** draw), "i": int(rng.integers(1, 5)),
                   "s": complex(rng.uniform(-1, 1), rng.uniform(-1, 1)) if draw % 2 else float(rng.uniform(-1, 1))}
            arrv = rng.uniform(-2, 2, 8)

            def value(node):
                it = Interp(env=dict(env), arrays={"arr": Array("arr", (8,), arrv)})
                if isinstance(node, (int, float, complex, np.number)):
                    return node.item() if isinstance(node, np.number) else node
                return it.ev(node)

            for n1, n2 in itertools.product(names, repeat=2):
                if n1.startswith("py") and n2.startswith("py"):
                    continue
                for opname, op in ops.items():
                    x, y = K[n1](), K[n2]()
                    try:
                        vx, vy = value(x), value(y)
                    except Exception:
                        continue
                    # reference: plain arithmetic on the operand values (float semantics; int/int division is excluded)
                    if opname == "/" and (vy == 0):
                        # division by a zero literal must be refused or give a tree that divides by zero; skip the value part
                        try:
                            op(x, y)
                            count("division_by_zero_accepted")
                        except (ValueError, ZeroDivisionError):
                            count("division_by_zero_refused")
                        continue
                    if opname == "/" and isinstance(vx, (int, np.integer)) and isinstance(vy, (int, np.integer)) and not isinstance(vx, bool):
                        continue
                    try:
                        tree = op(x, y)
                    except Exception as e:
                        count("overload_raises")
                        viol("overload-raises", f"{n1} {opname} {n2}: {type(e).__name__}: {str(e)[:80]}")
                        continue
                    res["evaluations"] += 1
                    count("overload_trees")
                    try:
                        got = value(tree)
                    except (ZeroDivisionError, AstError, Unsupported, TypeError) as e:
                        viol("simplified-tree-not-evaluable", f"{n1} {opname} {n2} -> {tree!r}: {type(e).__name__}: {str(e)[:60]}")
                        continue
                    ref = op(vx, vy)
                    ok = abs(complex(got) - complex(ref)) <= 1e-14 * max(1.0, abs(complex(ref)))
                    if not ok:
                        viol("overload-simplification-changes-value", f"({n1}) {opname} ({n2}) built {tree!r} = {got}, plain arithmetic gives {ref} (operands {vx}, {vy})")
                    else:
                        count("overload_ok")
                        if draw == 0:
                            res["nontrivial"].append(case_hash([n1, opname, n2]))
                    res["cover"].setdefault("result_node", [])
                    if type(tree).__name__ not in res["cover"]["result_node"]:
                        res["cover"]["result_node"].append(type(tree).__name__)
            # negation
            for n1 in names:
                if n1.startswith("py"):
                    continue
                x = K[n1]()
                try:
                    vx = value(x)
                    got = value(-x)
                except Exception:
                    continue
                count("neg_checks")
                if abs(complex(got) + complex(vx)) > 1e-14 * max(1.0, abs(complex(vx))):
                    viol("negation-changes-value", f"-({n1}) = {got}, expected {-vx}")
            # float_product and MultiIndex.global_index
            for q in range(40):
                m = int(rng.integers(0, 5))
                picks = [names[int(rng.integers(len(names)))] for _ in range(m)]
                picks = [p for p in picks if not p.startswith("py")]
                facs = [K[p]() for p in picks]
                try:
                    vals = [value(f) for f in facs]
                    got = value(L.float_product(facs))
                except Exception:
                    continue
                ref = 1.0
                for v in vals:
                    ref = ref * v
                count("float_product_checks")
                if abs(complex(got) - complex(ref)) > 1e-13 * max(1.0, abs(complex(ref))):
                    viol("float_product-changes-value", f"float_product({picks}) = {got}, product of values {ref}")
            for q in range(60):
                dim = int(rng.integers(0, 5))
                sizes = [int(rng.integers(1, 6)) for _ in range(dim)]
                idx = [int(rng.integers(0, s_)) for s_ in sizes]
                syms = [L.LiteralInt(v) if rng.random() < 0.3 else L.Symbol(f"m{d}", L.DataType.INT) for d, v in enumerate(idx)]
                it = Interp(env={f"m{d}": v for d, v in enumerate(idx)})
                mi = L.MultiIndex(syms, sizes)
                got = it.ev(mi)
                ref = int(np.ravel_multi_index(idx, sizes)) if dim else 0
                count("multiindex_checks")
                if got != ref:
                    viol("multiindex-global-index-wrong", f"MultiIndex({idx}, {sizes}).global_index = {got}, row-major flat index = {ref}")
        res["sample"] = {"kind": "matrix", "operand_kinds": names, "operators": list(ops) + ["neg", "reflected via python numbers"], "draws": case.get("draws", 3)}
    elif kind == "optimize":
        import ffcx.codegeneration.expression_generator as eg
        import ffcx.codegeneration.integral_generator as ig
        import ffcx.codegeneration.optimizer as opt

        from vf import corpus
        from vf import execs as E
        from vf.monitors import Patch

        records = []
        orig = opt.optimize

        def wrapped(code, rule):
            before = copy.deepcopy(code)
            out = orig(code, rule)
            records.append((before, copy.deepcopy(out)))
            return out

        p = Patch()
        p.set(opt, "optimize", wrapped)
        for mod in (ig, eg):
            if getattr(mod, "optimize", None) is orig:
                p.set(mod, "optimize", wrapped)
        try:
            b = corpus.build(case["recipe"])
            try:
                E.generate_source(b.forms or b.expressions, case.get("options") or {})
            except Exception as e:
                return {"verdict": INCONCLUSIVE, "why": f"ffcx did not generate: {type(e).__name__}: {str(e)[:100]}"}
        finally:
            p.restore()
        count("optimize_calls", len(records))
        for q, (before, after) in enumerate(records):
            res["evaluations"] += 1
            snaps = []
            changed = False
            try:
                for body in (before, after):
                    it = Interp(lazy=True)
                    it.max_steps = 400000
                    it.run(L.StatementList(list(body)))
                    snaps.append(it.snapshot())
            except Unsupported as e:
                count("optimize_body_unsupported")
                res.setdefault("unsup", str(e)[:80])
                continue
            except AstError as e:
                viol("optimized-body-not-interpretable", f"{case['recipe']} call {q}: {str(e)[:120]}")
                continue
            from vf import reparse as RP

            try:
                changed = RP.from_lnodes(L.StatementList(list(before))) != RP.from_lnodes(L.StatementList(list(after)))
            except Exception:
                changed = True
            count("optimize_bodies_compared")
            if changed:
                count("optimize_bodies_changed_by_passes")
            sa, sb = snaps
            # temporaries introduced by the passes (temp_k) are not observable outputs
            sb2 = {k: v for k, v in sb.items() if not k.split(":", 1)[1].startswith("temp_")}
            sa2 = {k: v for k, v in sa.items() if not k.split(":", 1)[1].startswith("temp_")}
            bad = None
            if set(sa2) != set(sb2):
                bad = f"different outputs written: {sorted(set(sa2) ^ set(sb2))[:4]}"
            else:
                for key in sa2:
                    va, vb = sa2[key], sb2[key]
                    if isinstance(va, dict):
                        if set(va) != set(vb):
                            bad = f"{key}: different elements written"
                            break
                        pairs = [(va[i], vb[i]) for i in va]
                    elif isinstance(va, list):
                        pairs = list(zip(va, vb))
                    else:
                        pairs = [(va, vb)]
                    # the passes re-associate sums (hoisted temporaries, fused loops): rounding differs at the level of
                    # eps x (number of terms) x (largest value written to this array), not relative to each entry
                    scale = max([1.0] + [abs(x) for x, _ in pairs])
                    for x, y in pairs:
                        if abs(x - y) > 1e-10 * scale:
                            bad = f"{key}: {x} before the passes, {y} after"
                            break
                    if bad:
                        break
            if bad:
                viol("optimizer-pass-changes-values", f"{case['recipe']} optimize call {q}: {bad}")
            elif changed:
                res["nontrivial"].append(case_hash([case["recipe"], case.get("options"), q]))
        res["sample"] = {"kind": "optimize", "recipe": case["recipe"], "optimize_calls": len(records)}
        res["cover"]["builder"] = [case["recipe"]["b"]]
    elif kind == "kernels":
        import ffcx.codegeneration.expression_generator as eg
        import ffcx.codegeneration.integral_generator as ig
        import ffcx.codegeneration.optimizer as opt

        from vf import corpus
        from vf import harness as H
        from vf import oracle as O
        from vf import valuecheck as VC
        from vf.checks.c10 import _call_all
        from vf.monitors import Patch

        b = corpus.build(case["recipe"])
        uf = b.forms[0]
        options = dict(case.get("options") or {})
        scalar = options.get("scalar_type", "float64")
        try:
            normal = H.jit_forms([uf], options)
            p = Patch()
            ident = lambda code, rule: code  # noqa: E731
            orig = opt.optimize
            p.set(opt, "optimize", ident)
            for mod in (ig, eg):
                if getattr(mod, "optimize", None) is orig:
                    p.set(mod, "optimize", ident)
            try:
                plain = H.jit_forms([uf], options)
            finally:
                p.restore()
        except Exception as e:
            return {"verdict": INCONCLUSIVE, "why": f"compile failed: {type(e).__name__}: {str(e)[:100]}"}
        if normal.code[1] == plain.code[1]:
            count("kernels_identical_text")
        else:
            count("kernels_text_changed_by_passes")
        cmode = "complex" in scalar
        orc = O.FormOracle(uf, complex_mode=cmode)
        cache = {}

        def dk(itype, sid):
            if (itype, sid) not in cache:
                interior = itype == "interior_facet"
                data = H.make_data(rng, orc.coord_element, orc.original_coefficients, orc.constants, interior, cmode, "affine")
                edim, nent = orc.entity_info(itype)
                e0 = int(rng.integers(nent))
                cache[(itype, sid)] = (data, (e0, e0), (0, 0))
            return cache[(itype, sid)]

        o1 = _call_all(normal, uf, normal.objs[0], orc, dk, scalar, H, O, rng)
        o2 = _call_all(plain, uf, plain.objs[0], orc, dk, scalar, H, O, rng)
        for key in o1:
            res["evaluations"] += 1
            a1, a2 = o1[key].astype(complex), o2[key].astype(complex)
            scale = max(float(np.max(np.abs(a2))), 1e-300)
            err = float(np.max(np.abs(a1 - a2))) / scale
            count("kernel_pairs")
            if err > 5e4 * H.EPS[scalar]:
                viol("optimised-kernel-differs-from-unoptimised", f"{case['recipe']} {key}: relative difference {err:.3e}")
            elif scale > 1e-6:
                res["nontrivial"].append(case_hash([case["recipe"], options, key]))
        obs, _, _ = VC.run_form(uf, normal, normal.objs[0], rng, scalar=scalar, entity_mode="some", entity_limit=2, perm_mode="zero")
        for o in obs:
            if o.status == "bad":
                viol("value-mismatch", f"{case['recipe']} {o.itype}/{o.sid}: optimised kernel differs from the oracle: {o.err:.3e}")
            elif o.status == "ok":
                count("oracle_ok")
        res["sample"] = {"kind": "kernels", "recipe": case["recipe"], "kernels": [list(k) for k in o1][:3]}
        res["cover"]["builder"] = [case["recipe"]["b"]]
    res["cover"]["kind"] = [kind]
    res["verdict"] = VIOLATED if res["violations"] else HELD
    if not res["evaluations"]:
        res["verdict"] = INCONCLUSIVE
        res["why"] = "nothing evaluated " + res.get("unsup", "")
    return res


def cases_for(tier, s):
    from vf.checks import c01, c02, c04

    R = []
    for q in range(2 if tier == "quick" else 50):
        R.append({"kind": "matrix", "draws": 3})
    pool = c01.curated(tier) + c02.curated(tier)
    pool = pool[::3] if tier == "quick" else pool
    pool += c01.randoms(8 if tier == "quick" else 150, s) + c02.randoms(8 if tier == "quick" else 150, s)
    pool += c04.cases_for("quick", s)[:: (6 if tier == "quick" else 1)]
    for c in pool:
        R.append({"kind": "optimize", "recipe": c["recipe"], "options": c.get("options", {})})
    kp = [c for c in (c01.curated(tier)[::4] + c02.curated(tier)[::4] + c01.randoms(6 if tier == "quick" else 100, s) + c02.randoms(6 if tier == "quick" else 100, s))]
    for c in kp:
        R.append({"kind": "kernels", "recipe": c["recipe"], "options": c.get("options", {})})
    R.append({"kind": "kernels", "recipe": {"b": "tp_mass_stiff", "cell": "quadrilateral", "tpmesh": True, "p": {"degree": 2}}, "options": {"sum_factorization": True}})
    R.append({"kind": "optimize", "recipe": {"b": "tp_mass_stiff", "cell": "hexahedron", "tpmesh": True, "p": {"degree": 1}}, "options": {"sum_factorization": True}})
    for i, c in enumerate(R):
        c["seed"] = [s, 17, i]
    return R


def main(tier, replay=None):
    s = seed()
    run = Run(
        PID, tier, "exploration",
        "matrix: 34 operand kinds (int/float/complex literals 0,1,-1,+-k,+-x,-0.0; INT/REAL/SCALAR symbols; Neg, double Neg, Sum, Product, Sub, Div, Mul, Add-0, ArrayAccess, "
        "MathFunction; Python ints/floats for the reflected operators) squared x {+,-,*,/} + negation + float_product + MultiIndex.global_index (dims 0-4), 3 random value "
        "draws each, compared with plain arithmetic through the AST interpreter (EXHAUSTIVE over the kind matrix); optimize: every real optimizer.optimize call while "
        "compiling the corpus, body before vs after interpreted under one deterministic lazy environment; kernels: kernels generated with the passes replaced by the "
        "identity vs normal kernels (same data) vs oracle; distinct non-trivial = operator/kind combinations checked + optimize calls whose body the passes changed and "
        "that compared equal + kernel pairs with max|A|>1e-6",
        ["the AST interpreter (vf/astinterp.py) defines the value of a tree; int/int division is excluded (language-dependent)",
         "a fragment's free symbols/arrays get deterministic pseudo-random values (same for before/after)", "temporaries named temp_* introduced by the passes are not observable outputs"],
    )
    cases = cases_for(tier, s)
    if replay:
        cases = [json.load(open(replay))["replay"]["case"]]
    results = run_pool("c17", cases, per_case_timeout=400, chunk=3, deadline=time.time() + wall_budget(tier, 480, 3000))
    for r in results:
        run.add(r)
    run.extra["exhaustive"] = True
    run.require("overload_ok", 3000 if not replay else 0)
    run.require("optimize_bodies_changed_by_passes", 30 if not replay else 0)
    run.require("kernel_pairs", 15 if not replay else 0)
    return run.finish()


if __name__ == "__main__":
    main_wrapper(main)
