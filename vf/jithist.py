"""Running and checking histories of the JIT cache protocol (C14, C15)."""

from __future__ import annotations

import hashlib
import json
import os
import subprocess
import time

import numpy as np

from vf.common import PY


def expected_for(recipe, seed=0):
    """Reference values (oracle) for the first cell kernel of each form / each expression of a recipe, on fixed data."""
    import vf.repoenv  # noqa: F401
    from vf import corpus
    from vf import harness as H
    from vf import oracle as O

    rng = np.random.default_rng([seed, 14])
    b = corpus.build(recipe)
    out = []
    if b.forms:
        for f in b.forms:
            orc = O.FormOracle(f)
            data = H.make_data(rng, orc.coord_element, orc.original_coefficients, orc.constants, False, False, "affine")
            pos = [orc.original_coefficients.index(c) for c in orc.reduced_coefficients]
            w, _ = H.pack_w(orc.original_coefficients, pos, data, False, np.float64)
            c = H.pack_c(orc.constants, data, np.float64)
            x = H.pack_x(data, False, np.float64)
            R, S, _ = orc.tensor("cell", -1, data)
            out.append({"x": x.tolist(), "w": w.tolist(), "c": c.tolist(), "R": np.asarray(R, dtype=float).tolist()})
    else:
        for e, pts in b.expressions:
            orc = O.ExpressionOracle(e, pts)
            cel = orc.domain.ufl_coordinate_element()
            data = H.make_data(rng, cel, orc.coefficients, orc.constants, False, False, "affine")
            w, _ = H.pack_w(orc.coefficients, list(range(len(orc.coefficients))), data, False, np.float64)
            c = H.pack_c(orc.constants, data, np.float64)
            x = H.pack_x(data, False, np.float64)
            R = orc.tensor(orc.domain.ufl_cell().cellname, data)
            out.append({"x": x.tolist(), "w": w.tolist(), "c": c.tolist(), "R": np.real(R).tolist()})
    return out


def launch(spec, hdir, name, env_extra=None, strace=False):
    sp = os.path.join(hdir, f"spec-{name}.json")
    with open(sp, "w") as f:
        json.dump(spec, f)
    env = dict(os.environ)
    if env_extra:
        env.update(env_extra)
    cmd = [PY, "-m", "vf.jitproc", sp]
    if strace:
        # kernel-level log of the same run (cross-check that the audit-hook recorder observes the system, not itself)
        cmd = ["strace", "-f", "-ttt", "-v", "-s", "300", "-e", "trace=openat,open,rename,renameat,renameat2,unlink,unlinkat,execve", "-o", os.path.join(hdir, f"strace-{name}.txt")] + cmd
    return subprocess.Popen(cmd, cwd=hdir, env=env, stdout=subprocess.DEVNULL, stderr=open(os.path.join(hdir, f"err-{name}.txt"), "w"),
                            start_new_session=bool(spec.get("new_session")))


def wait_all(procs, watchdog):
    """Wait for processes; returns list of return codes (None = watchdog fired -> inconclusive)."""
    t_end = time.time() + watchdog
    rcs = []
    for p in procs:
        left = max(0.1, t_end - time.time())
        try:
            rcs.append(p.wait(timeout=left))
        except subprocess.TimeoutExpired:
            try:
                p.kill()
            except OSError:
                pass
            p.wait()
            rcs.append(None)
    return rcs


def read_log(path):
    ev = []
    if os.path.exists(path):
        for line in open(path):
            line = line.strip()
            if line:
                try:
                    ev.append(json.loads(line))
                except json.JSONDecodeError:
                    pass
    ev.sort(key=lambda e: e["t"])
    return ev


def final_so(cache_dir, module):
    for f in os.listdir(cache_dir):
        if f.startswith(module) and f.endswith(".so"):
            b = open(os.path.join(cache_dir, f), "rb").read()
            return hashlib.sha256(b).hexdigest()[:16], len(b)
    return None, None


def interleaving_signature(events):
    """Canonical order of (role, protocol event) pairs of a history."""
    return tuple((e["role"], e.get("key") or e["ev"]) for e in events if e["ev"] in ("proto", "lock_result", "return"))


def check_no_fault_history(events, cache_dir, tol=1e-11, expect_builders=1):
    """Invariants of C14 over one merged, time-sorted history without injected faults.  Returns list of (mechanism, text)."""
    V = []
    modules = {e["module"] for e in events if e["ev"] == "lock_result"}
    if len(modules) > 1:
        # every process of a history issues the same request: one module name, hence one lock file and one compile
        by = {}
        for e in events:
            if e["ev"] == "lock_result":
                by.setdefault(e["module"], []).append(e["pid"])
        V.append(("same-request-different-module-names", f"the same request was given {len(modules)} different module names in different processes "
                  f"({ {m[-12:]: p for m, p in by.items()} }): {sum(1 for e in events if e['ev'] == 'proto' and e['key'] == 'popen_cc')} compiler launches in total"))
    for mod in modules:
        builders = [e for e in events if e["ev"] == "lock_result" and e["module"] == mod and e["outcome"] == "builder"]
        if len(builders) != expect_builders:
            V.append(("lock-not-exclusive", f"{len(builders)} processes acquired the build lock of {mod} (pids {[b['pid'] for b in builders]})"))
        cc = [e for e in events if e["ev"] == "proto" and e["key"] == "popen_cc" and mod in e["detail"]]
        if len(cc) != expect_builders:
            V.append(("compiler-launched-more-than-once", f"{len(cc)} compiler launches for {mod} by pids {[c['pid'] for c in cc]}"))
        markers = [e for e in events if e["ev"] == "proto" and e["key"] == "marker_open" and e["detail"].startswith(mod)]
        t_marker = min((m["t"] for m in markers), default=None)
        sha, size = final_so(cache_dir, mod)
        for e in events:
            if e["ev"] == "proto" and e["key"] == "import" and e["detail"].startswith(mod):
                bpid = builders[0]["pid"] if builders else None
                if e["pid"] != bpid:
                    if t_marker is None or e["t"] < t_marker:
                        V.append(("load-before-marker", f"pid {e['pid']} loaded {e['detail']} before the builder created the ready marker"))
                    if not e.get("marker_exists"):
                        V.append(("load-without-marker", f"pid {e['pid']} loaded {e['detail']} while the ready marker was absent"))
                if sha and e.get("so_sha") != sha:
                    V.append(("load-of-incomplete-module", f"pid {e['pid']} loaded a shared object ({e.get('so_size')} bytes, sha {e.get('so_sha')}) that is not the final one ({size} bytes, sha {sha})"))
    for e in events:
        if e["ev"] == "return":
            if e["status"] != "returned":
                V.append(("request-failed-without-fault", f"pid {e['pid']} ({e['role']}) raised {e.get('exc')}: {e.get('msg')} although no fault was injected"))
            elif e.get("kernel_err") is None:
                V.append(("kernels-not-checked", f"pid {e['pid']}: {e.get('kernel_check_error')}"))
            elif e["kernel_err"] > tol:
                V.append(("wrong-kernels-returned", f"pid {e['pid']} ({e['role']}) got kernels with relative error {e['kernel_err']:.3e}"))
    return V


def parse_strace(path, cache_dir):
    """[(t, pid, key, ok)] of protocol-relevant system calls on files in cache_dir."""
    import re

    out = []
    if not os.path.exists(path):
        return out
    for line in open(path, errors="replace"):
        m = re.match(r"(\d+)\s+(\d+\.\d+)\s+(\w+)\((.*)\)\s+=\s+(-?\d+|\?)", line)
        if not m:
            continue
        pid, t, call, args, ret = int(m.group(1)), float(m.group(2)), m.group(3), m.group(4), m.group(5)
        ok = ret not in ("?",) and not ret.startswith("-")
        if call in ("openat", "open"):
            fm = re.search(r'"([^"]+)"', args)
            if not fm or not fm.group(1).startswith(cache_dir):
                continue
            fn = fm.group(1)
            if fn.endswith(".c") and "O_EXCL" in args:
                out.append((t, pid, "lock_open", ok))
            elif fn.endswith(".c.cached") and "O_EXCL" in args:
                out.append((t, pid, "marker_open", ok))
            elif ".c.~" in fn and "O_CREAT" in args:
                out.append((t, pid, "src_tmp_open", ok))
            elif fn.endswith(".so") and "O_RDONLY" in args and "O_CLOEXEC" in args and ok:
                out.append((t, pid, "so_open", ok))
        elif call.startswith("rename"):
            names = re.findall(r'"([^"]+)"', args)
            if len(names) >= 2 and names[-1].startswith(cache_dir):
                if names[-1].endswith(".c.failed"):
                    out.append((t, pid, "rename_failed", ok))
                elif names[-1].endswith(".c"):
                    out.append((t, pid, "rename_src", ok))
        elif call == "execve" and ok:
            if " \"-c\"" in args and ".c\"" in args and "gcc" in args:
                out.append((t, pid, "popen_cc", ok))
            elif "\"-shared\"" in args and "gcc" in args and "collect2" not in args and "/ld" not in args.split(",")[0]:
                out.append((t, pid, "popen_link", ok))
    return out
