"""Compute JIT module/object names (through the real jit.compile_* entry points, aborted just before the
compiler) and kernel-text digests for one or two requests.  Fresh process; prints one JSON line."""

import hashlib
import json
import re
import sys


class Abort(Exception):
    pass


def mutate_points(pts, how):
    import numpy as np

    p = np.array(pts, dtype=float, copy=True)
    if how is None:
        return p
    if how == "eps10":
        p[0, 0] += 1e-10
    elif how == "eps6":
        p[0, 0] += 1e-6
    elif how == "big":  # >1000 elements, change in the elided middle
        n = 700
        rows = np.linspace(0.05, 0.3, n)
        p = np.stack([rows] * p.shape[1], axis=1) / p.shape[1]
    elif how == "big_mid":
        n = 700
        rows = np.linspace(0.05, 0.3, n)
        p = np.stack([rows] * p.shape[1], axis=1) / p.shape[1]
        p[n // 2, 0] += 1e-3
    elif how == "f32":
        p = p.astype(np.float32)
    elif how == "order":
        p = p[::-1].copy()
    elif how == "fewer":
        p = p[:-1].copy()
    return p


def names_and_digest(req):
    import numpy as np

    import ffcx.codegeneration.jit as jit
    import ffcx.compiler
    import ffcx.options

    from vf import corpus

    b = corpus.build(req["recipe"])
    options = dict(req.get("options") or {})
    if req.get("scalar_as_dtype"):
        options["scalar_type"] = np.dtype(options.get("scalar_type", "float64")).type
    objs = list(b.forms)
    is_expr = False
    if not objs:
        is_expr = True
        objs = [(e, mutate_points(p, req.get("points"))) for e, p in b.expressions]
    if req.get("duplicate"):
        objs = objs + objs[:1]
    if req.get("reverse"):
        objs = objs[::-1]
    captured = {}
    orig = jit._compile_objects

    def spy(decl, ufl_objects, object_names, module_name, *a, **kw):
        captured["module"] = module_name
        captured["objects"] = list(object_names)
        raise Abort()

    jit._compile_objects = spy
    import tempfile

    d = tempfile.mkdtemp()
    try:
        fn = jit.compile_expressions if is_expr else jit.compile_forms
        kw = {}
        if req.get("compile_args"):
            # (callers that pass no flags rely on the entry point's own default, like most users)
            kw["cffi_extra_compile_args"] = req["compile_args"] if req.get("share_args_list") else list(req["compile_args"])
        try:
            fn(objs, options=options, cache_dir=d, cffi_debug=bool(req.get("cffi_debug", False)), **kw)
        except Abort:
            pass
    finally:
        jit._compile_objects = orig
        import shutil

        shutil.rmtree(d, ignore_errors=True)
    out = {"module": captured.get("module"), "objects": captured.get("objects")}
    if req.get("digest", True):
        opts = ffcx.options.get_options(dict(req.get("options") or {}))
        code, _ = ffcx.compiler.compile_ufl_objects(objs, options=opts, namespace="NS")
        text = code[1]
        # normalise embedded hashes/names; keep kernels, tables, descriptors
        text = re.sub(r"\b(form|integral|expression)_[0-9a-f]{40}\b", r"\1_H", text)
        text = re.sub(r'"[0-9a-f]{64,}"', '"SIG"', text)
        text = re.sub(r"//[^\n]*", "", text)
        out["digest"] = hashlib.sha256(text.encode()).hexdigest()
        out["all_names"] = sorted(set(re.findall(r"\b(?:ufcx_form|ufcx_integral|ufcx_expression)\s+(\w+)\s*=", code[1])))
        out["name_list"] = re.findall(r"\b(?:ufcx_form|ufcx_integral|ufcx_expression)\s+(\w+)\s*=", code[1])
        out["statics"] = re.findall(r"^(?:static\s+)?(?:const\s+)?(?:int|bool|double|float|uint64_t|ufcx_integral\*|char\*)\s*\*?\s*(\w+)\s*\[", code[1], re.M)
    return out


def main():
    case = json.loads(sys.argv[1])
    import vf.repoenv  # noqa: F401

    if case.get("history") == "objs":
        from vf.c12_gen import unrelated_objects

        keep = unrelated_objects(case.get("k", 4))  # noqa: F841
    if case.get("history") == "compiled":
        import ffcx.compiler
        import ffcx.options

        from vf.c12_gen import unrelated_objects

        for f in unrelated_objects(2):
            ffcx.compiler.compile_ufl_objects([f], options=ffcx.options.get_options({}), namespace="x")
    if case.get("history") == "hostile":
        # earlier requests in this process that differ from the target only in what must not leak into its name: debug builds,
        # other flags (one list object reused by the caller), other options
        r0 = case["requests"][0]
        shared = ["-O1"]
        for mod in ({"cffi_debug": True}, {"compile_args": shared, "share_args_list": True}, {"cffi_debug": True, "compile_args": shared, "share_args_list": True},
                    {"options": dict(r0.get("options") or {}, table_atol=0.05)}, {"options": dict(r0.get("options") or {}, scalar_type="float32")}):
            try:
                names_and_digest(dict(r0, digest=False, **mod))
            except Exception:
                pass
    if case.get("history") == "churn":
        # name many short-lived near-miss requests first: their objects are freed, later objects reuse their addresses
        import gc

        for q in range(case.get("k", 25)):
            r0 = case["requests"][0]
            kind0 = "expr" if (r0["recipe"].get("p", {}).get("kind") == "expr" or "expr" in r0["recipe"]["b"]) else "form"
            tmp = {"recipe": {"b": "nearmiss", "cell": r0["recipe"].get("cell", "triangle"), "p": {"kind": kind0, "literal": 1.0 + 0.01 * q, "power": 2 + q % 3}}, "digest": False}
            try:
                names_and_digest(tmp)
            except Exception:
                pass
            gc.collect()
    res = []
    for req in case["requests"]:
        try:
            res.append(names_and_digest(req))
        except Exception as e:
            res.append({"error": f"{type(e).__name__}: {str(e)[:200]}"})
    print("C13GEN" + json.dumps(res))


if __name__ == "__main__":
    main()
