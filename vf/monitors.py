"""Monitors attached from outside to real ffcx functions (DESIGN 2.5).

Every monitor counts its evaluations; a deciding monitor with zero evaluations makes the
case inconclusive.  Wrappers are installed on the module attribute through which ffcx
looks the function up (including `from m import f` aliases) and removed afterwards.
"""

from __future__ import annotations

import contextlib
import functools

import numpy as np

import vf.repoenv  # noqa: F401


class Patch:
    """Replace attributes of modules/classes, restoring them on exit."""

    def __init__(self):
        self._saved = []

    def set(self, owner, name, new):
        self._saved.append((owner, name, getattr(owner, name)))
        setattr(owner, name, new)

    def restore(self):
        for owner, name, old in reversed(self._saved):
            setattr(owner, name, old)
        self._saved.clear()

    def __enter__(self):
        return self

    def __exit__(self, *a):
        self.restore()


class TableDelta:
    """Largest perturbation ffcx actually applied to element tables while compiling
    (clamping to -1/0/1 and merging of 'equal' tables)."""

    def __init__(self):
        self.delta = 0.0
        self.clamp_calls = 0
        self.equal_calls = 0
        self.merged = 0


def _allowed(table, a, kw):
    """The largest perturbation the table tolerances legitimately permit for this table: a few x (atol + rtol * max|value|).
    A larger implied perturbation is a misclassification, not a tolerance effect, and must NOT be credited to the tolerance budget
    (otherwise a table wrongly declared piecewise/uniform/not-permuted would excuse the wrong values it produces)."""
    rtol = kw.get("rtol", a[0] if len(a) > 0 else 1e-6)
    atol = kw.get("atol", a[1] if len(a) > 1 else 1e-9)
    t = np.asarray(table, dtype=float)
    m = float(np.max(np.abs(t))) if t.size else 0.0
    try:
        return 4.0 * (float(atol) + float(rtol) * max(m, 1.0))
    except (TypeError, ValueError):
        return 4.0 * (1e-9 + 1e-6 * max(m, 1.0))


@contextlib.contextmanager
def table_delta():
    import ffcx.ir.elementtables as et

    mon = TableDelta()
    p = Patch()
    orig_clamp = et.clamp_table_small_numbers
    orig_equal = et.equal_tables

    @functools.wraps(orig_clamp)
    def clamp(table, *a, **kw):
        before = np.array(table, dtype=float, copy=True)
        out = orig_clamp(table, *a, **kw)
        mon.clamp_calls += 1
        if before.size:
            d = float(np.max(np.abs(np.asarray(out, dtype=float) - before)))
            mon.delta = max(mon.delta, min(d, _allowed(before, a, kw)))
        return out

    @functools.wraps(orig_equal)
    def equal(a, b, *args, **kw):
        r = orig_equal(a, b, *args, **kw)
        mon.equal_calls += 1
        if r:
            aa, bb = np.asarray(a, dtype=float), np.asarray(b, dtype=float)
            if aa.size and aa.shape == bb.shape:
                d = float(np.max(np.abs(aa - bb)))
                if d > 0:
                    mon.merged += 1
                mon.delta = max(mon.delta, min(d, _allowed(aa, args, kw)))
        return r

    orig_analyse = et.analyse_table_type
    orig_perm = et.is_permuted_table

    @functools.wraps(orig_analyse)
    def analyse(table, *a, **kw):
        tt = orig_analyse(table, *a, **kw)
        mon.delta = max(mon.delta, min(_implied_perturbation(table, tt), _allowed(table, a, kw)))
        return tt

    @functools.wraps(orig_perm)
    def is_perm(table, *a, **kw):
        r = orig_perm(table, *a, **kw)
        t = np.asarray(table, dtype=float)
        if not r and t.size and t.shape[0] > 1:
            mon.delta = max(mon.delta, min(float(np.max(np.abs(t - t[:1]))), _allowed(t, a, kw)))
        return r

    p.set(et, "clamp_table_small_numbers", clamp)
    p.set(et, "equal_tables", equal)
    p.set(et, "analyse_table_type", analyse)
    p.set(et, "is_permuted_table", is_perm)
    try:
        yield mon
    finally:
        p.restore()


# --------------------------------------------------------------------------- table delta (extended)
def _implied_perturbation(table, ttype):
    """Perturbation implied by treating `table` as `ttype` (values replaced by a representative)."""
    t = np.asarray(table, dtype=float)
    if t.size == 0:
        return 0.0
    d = 0.0
    if ttype == "zeros":
        return float(np.max(np.abs(t)))
    if ttype == "ones":
        return float(np.max(np.abs(t - 1.0)))
    if ttype in ("piecewise", "fixed"):
        d = max(d, float(np.max(np.abs(t - t[:, :, :1, :]))))
    if ttype in ("uniform", "fixed"):
        d = max(d, float(np.max(np.abs(t - t[:, :1, :, :]))))
    return d


# --------------------------------------------------------------------------- stage monitors
def _scalar_eval(e, ev, term_value):
    """Value of a scalar UFL expression of a scalar graph: operators evaluated here, everything else (modified
    terminals) looked up through term_value.  Real comparisons use the real parts (UFL only admits real operands)."""
    import cmath
    import math

    from ufl import classes as C

    if isinstance(e, C.Zero):
        return 0.0
    if isinstance(e, C.ComplexValue):
        return complex(e.value())
    if isinstance(e, C.ScalarValue):
        return e.value()
    ops = e.ufl_operands
    cx = lambda v: isinstance(v, complex)  # noqa: E731
    if isinstance(e, C.Sum):
        return ev(ops[0]) + ev(ops[1])
    if isinstance(e, C.Product):
        return ev(ops[0]) * ev(ops[1])
    if isinstance(e, C.Division):
        return ev(ops[0]) / ev(ops[1])
    if isinstance(e, C.Power):
        return ev(ops[0]) ** ev(ops[1])
    if isinstance(e, C.Abs):
        return abs(ev(ops[0]))
    if isinstance(e, C.Conj):
        v = ev(ops[0])
        return v.conjugate() if cx(v) else v
    if isinstance(e, C.Real):
        v = ev(ops[0])
        return v.real if cx(v) else v
    if isinstance(e, C.Imag):
        v = ev(ops[0])
        return v.imag if cx(v) else 0.0
    if isinstance(e, C.MathFunction) and not isinstance(e, C.BesselFunction):
        v = ev(ops[0])
        name = e._ufl_handler_name_
        mod = cmath if cx(v) else math
        table = {"sqrt": "sqrt", "exp": "exp", "ln": "log", "cos": "cos", "sin": "sin", "tan": "tan", "cosh": "cosh", "sinh": "sinh",
                 "tanh": "tanh", "acos": "acos", "asin": "asin", "atan": "atan"}
        if name == "erf" and not cx(v):
            return math.erf(v)
        if name not in table:
            raise NotImplementedError(name)
        return getattr(mod, table[name])(v)
    if isinstance(e, C.MinValue):
        return min(ev(ops[0]), ev(ops[1]))
    if isinstance(e, C.MaxValue):
        return max(ev(ops[0]), ev(ops[1]))
    if isinstance(e, C.Atan2):
        return math.atan2(ev(ops[0]), ev(ops[1]))
    if isinstance(e, C.Condition):
        tn = type(e).__name__
        a = [ev(o) for o in ops]
        if tn in ("LT", "GT", "LE", "GE"):
            a = [x.real if cx(x) else x for x in a]
        return {"LT": lambda: a[0] < a[1], "GT": lambda: a[0] > a[1], "LE": lambda: a[0] <= a[1], "GE": lambda: a[0] >= a[1],
                "EQ": lambda: a[0] == a[1], "NE": lambda: a[0] != a[1], "AndCondition": lambda: a[0] and a[1],
                "OrCondition": lambda: a[0] or a[1], "NotCondition": lambda: not a[0]}[tn]()
    if isinstance(e, C.Conditional):
        return ev(ops[1]) if ev(ops[0]) else ev(ops[2])
    return term_value(e)


class StageMonitors:
    """Contracts on real ffcx stage functions while a compile runs (DESIGN 2.5):

    * build_optimized_tables (post): every table is 4-D [perm][entity][point][dof], its shape
      agrees with its class, offset/block_size are set, and the values equal an independent
      tabulation (oracle's element tables at the oracle's mapped/permuted points).
    * integral_data (post): see C06.
    """

    def __init__(self, tol=2e-6, complex_values=False):
        self.complex_values = complex_values
        self.counters = {}
        self.violations = []
        self.tol = tol
        self._p = Patch()

    def count(self, k, n=1):
        self.counters[k] = self.counters.get(k, 0) + n

    def __enter__(self):
        import ffcx.ir.elementtables as et
        import ffcx.ir.integral as ii

        orig = et.build_optimized_tables
        mon = self

        @functools.wraps(orig)
        def wrapped(quadrature_rule, cell, integral_type, entity_type, modified_terminals, existing_tables, *a, **kw):
            mts = list(modified_terminals)
            out = orig(quadrature_rule, cell, integral_type, entity_type, mts, existing_tables, *a, **kw)
            try:
                mon._check_tables(out, quadrature_rule, cell, integral_type, entity_type, kw)
            except Exception as e:  # monitor failure is never a verdict
                mon.count("table_contract_monitor_errors")
                mon.last_error = f"{type(e).__name__}: {e}"
            return out

        self._p.set(et, "build_optimized_tables", wrapped)
        if getattr(ii, "build_optimized_tables", None) is orig:
            self._p.set(ii, "build_optimized_tables", wrapped)

        # argument factorization contract (post): S_target == sum_k F[fi_k] * prod(arguments in argkey_k), checked
        # numerically for random values of the modified terminals (arguments real: basis functions are real-valued)
        forig = ii.compute_argument_factorization

        @functools.wraps(forig)
        def fwrapped(S, rank):
            F = forig(S, rank)
            try:
                mon._check_factorization(S, F, rank)
            except Exception as e:  # monitor failure is never a verdict
                mon.count("factorization_monitor_errors")
                mon.last_error = f"{type(e).__name__}: {e}"
            return F

        self._p.set(ii, "compute_argument_factorization", fwrapped)
        return self

    def __exit__(self, *a):
        self._p.restore()

    # ---- factorization contract
    def _check_factorization(self, S, F, rank, samples=2):
        import zlib

        from ufl import classes as C

        def is_arg(e):
            t = e
            while not t._ufl_is_terminal_:
                t = t.ufl_operands[0]
            return isinstance(t, C.Argument)

        targets = [(i, v) for i, v in S.nodes.items() if v.get("target", False)]
        # (component -> [(argkey, fi)]) from F
        terms = {}
        for fi, v in F.nodes.items():
            for argkey, comp in zip(v.get("target", []), v.get("component", [])):
                terms.setdefault(comp, []).append((tuple(argkey), fi))
        for argkey_list in terms.values():
            keys = [k for k, _ in argkey_list]
            if len(keys) != len(set(keys)):
                self._viol(f"factorization lists an argument combination twice: {sorted(keys)}", "factorization-contract")
        done = 0
        for sample in range(4 * samples):
            if done >= samples:
                break
            vals = {}
            all_finite = True

            def term_value(e, _s=sample):
                r = vals.get(e)
                if r is None:
                    h = zlib.crc32(repr(e).encode() + bytes([_s]))
                    rng = np.random.default_rng(h)
                    r = rng.uniform(0.4, 1.6)
                    if self.complex_values and not is_arg(e):
                        r = r + 1j * rng.uniform(-0.8, 0.8)
                    vals[e] = r
                return r

            memo = {}

            def ev(e):
                r = memo.get(e)
                if r is None:
                    try:
                        r = _scalar_eval(e, ev, term_value)
                    except (ValueError, ZeroDivisionError, OverflowError):
                        r = float("nan")  # outside the real domain for this random sample: the sample is not used
                    memo[e] = r
                return r

            for ti, tv in targets:
                want = ev(tv["expression"])
                for comp in tv["component"]:
                    got = 0.0
                    mag = 0.0
                    tl = terms.get(comp, [])
                    if not tl and rank > 0:
                        self.count("factorization_zero_targets")
                    for argkey, fi in tl:
                        t = ev(F.nodes[fi]["expression"])
                        for ai in argkey:
                            ae = F.nodes[ai]["expression"]
                            if not is_arg(ae):
                                self._viol(f"factorization argkey {argkey} refers to a non-argument node {str(ae)[:60]}", "factorization-contract")
                            t = t * ev(ae)
                        got = got + t
                        mag += abs(t)
                    if not (np.isfinite(want) and np.isfinite(got)):
                        self.count("factorization_nonfinite_samples")
                        all_finite = False
                        continue
                    self.count("factorization_contract_evals")
                    if abs(got - want) > 1e-9 * (mag + abs(want)) + 1e-300:
                        self._viol(f"argument factorization does not reproduce the integrand: component {comp} rank {rank}: "
                                   f"integrand={want!r} factorized sum={got!r} ({len(tl)} terms)", "factorization-contract")
                    elif abs(want) > 0:
                        self.count("factorization_contract_nonzero_ok")
            done += all_finite

    # ---- table contract
    def _check_tables(self, mt_tables, rule, cell, integral_type, entity_type, kw):
        import basix
        import ufl

        from vf import oracle as O

        cellname = cell.cellname
        tdim = cell.topological_dimension
        pts = np.asarray(rule.points, dtype=float)
        permuted_kind = integral_type == "interior_facet" or (integral_type == "expression" and entity_type == "facet")
        for mt, tr in mt_tables.items():
            if isinstance(mt, str):
                continue
            self.count("table_contract_evals")
            v = np.asarray(tr.values)
            if v.ndim != 4:
                self._viol(f"table {tr.name} is not 4-D: shape {v.shape}")
                continue
            if tr.offset is None or tr.block_size is None:
                self._viol(f"table {tr.name} has no offset/block_size")
                continue
            if tr.ttype in ("piecewise", "fixed", "ones", "zeros") and v.shape[2] != 1 and tr.ttype != "zeros":
                self._viol(f"table {tr.name} ttype {tr.ttype} but {v.shape[2]} points")
            if not tr.is_permuted and v.shape[0] != 1:
                self._viol(f"table {tr.name} not permuted but {v.shape[0]} permutation slices")
            if tr.ttype == "zeros":
                self.count("table_contract_zeros")
            t = mt.terminal
            if mt.averaged is not None:
                self.count("table_contract_skipped_avg")
                continue
            if isinstance(t, ufl.classes.FormArgument):
                el = t.ufl_function_space().ufl_element()
                fc = mt.flat_component
                ld = tuple(mt.local_derivatives)
            elif isinstance(t, ufl.classes.SpatialCoordinate):
                el = ufl.domain.extract_unique_domain(t).ufl_coordinate_element()
                fc = mt.flat_component
                ld = tuple(mt.local_derivatives)
            elif isinstance(t, ufl.classes.Jacobian):
                el = ufl.domain.extract_unique_domain(t).ufl_coordinate_element()
                fc, d = mt.component
                ld = tuple(sorted((d,) + tuple(mt.local_derivatives)))
            else:
                continue
            if el.cell.topological_dimension != tdim:
                self.count("table_contract_skipped_mixed_dim")
                continue
            k = len(ld)
            cell_offset = el.dim if (mt.restriction == "-" and isinstance(t, ufl.classes.FormArgument)) else 0
            off = tr.offset - cell_offset
            bs = tr.block_size
            nd = None
            # expected values for each (perm, entity)
            if entity_type == "cell":
                ents, edim = [0], tdim
            elif entity_type == "facet":
                edim = tdim - 1
                ents = list(range(O.num_entities(cellname, edim)))
            elif entity_type == "vertex":
                ents, edim = list(range(O.num_entities(cellname, 0))), 0
            else:
                self.count("table_contract_skipped_entity_type")
                continue
            ok = True
            worst = 0.0
            nperm_tab = v.shape[0]
            for e in ents:
                if edim == tdim:
                    ect = None
                else:
                    ect = basix.cell.subentity_types(O.celltype(cellname))[edim][e]
                nperm = O.num_facet_perms(ect) if (permuted_kind and ect is not None and edim == tdim - 1) else 1
                for p in range(nperm):
                    if edim == tdim:
                        X = pts
                    elif edim == 0:
                        X = O.map_entity_points(cellname, 0, e, pts)
                    else:
                        if pts.shape[1] != edim:
                            ok = None
                            break
                        X = O.map_entity_points(cellname, edim, e, O.permute_facet_points(ect, pts, p))
                    full = O.tabulate_ref(el, X, k)  # (rsize_flat,)+(tdim,)*k+(P, ndofs)
                    if fc >= full.shape[0]:
                        ok = None
                        break
                    sub = full[(fc,) + ld]  # (P, ndofs)
                    ndt = v.shape[3]
                    cols = off + bs * np.arange(ndt)
                    if cols.size and cols.max() >= sub.shape[1]:
                        self._viol(
                            f"table {tr.name}: dof range offset={tr.offset} block_size={bs} ndofs={ndt} exceeds element dim {sub.shape[1]}"
                        )
                        ok = False
                        break
                    exp = sub[:, cols]
                    got = v[min(p, nperm_tab - 1) if nperm_tab > 1 else 0, min(e, v.shape[1] - 1) if v.shape[1] > 1 else 0]
                    if got.shape[0] not in (1, exp.shape[0]):
                        self._viol(f"table {tr.name}: {got.shape[0]} points, rule has {exp.shape[0]}")
                        ok = False
                        break
                    diff = float(np.max(np.abs(got - exp))) if exp.size else 0.0
                    scale = max(1.0, float(np.max(np.abs(exp))) if exp.size else 1.0)
                    worst = max(worst, diff / scale)
                if ok is not True:
                    break
            if ok is None:
                self.count("table_contract_skipped_shape")
                continue
            if ok and worst > self.tol:
                self._viol(
                    f"table {tr.name} (ttype {tr.ttype}, {integral_type}/{entity_type} on {cellname}, component {fc}, "
                    f"derivatives {ld}, restriction {mt.restriction}) differs from independent tabulation by {worst:.2e}"
                )
            elif ok:
                self.count("table_contract_values_ok")

    def _viol(self, what, mechanism="table-contract"):
        if len(self.violations) < 20:
            self.violations.append({"mechanism": mechanism, "what": what, "replay": {}})
