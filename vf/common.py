"""Shared plumbing: tiers, seeds, verdicts, subprocess pool, evidence, known findings.

Everything here is harness code; nothing in it decides a property.  The deciding
monitors live in vf/checks/cNN.py and in vf/oracle.py, vf/execs.py, vf/monitors.py.
"""

from __future__ import annotations

import atexit
import hashlib
import json
import os
import shutil
import subprocess
import sys
import tempfile
import time
from concurrent.futures import ThreadPoolExecutor

VERIF = os.path.dirname(os.path.dirname(os.path.abspath(__file__)))
REPO = os.path.abspath(os.environ.get("FFCX_VERIF_REPO", "/repo"))
PY = os.environ.get("FFCX_VERIF_PY", "/venv/bin/python")
NPROC = int(os.environ.get("VERIF_NPROC", "16"))

HELD, VIOLATED, INCONCLUSIVE = "held", "violated", "inconclusive"


def seed() -> int:
    return int(os.environ.get("VERIF_SEED", "0"))


def wall_budget(tier_: str, quick_s: float, thorough_s: float) -> float:
    """Wall budget (seconds) after which remaining cases of a run are skipped (recorded, never a verdict).
    VERIF_QUICK_BUDGET / VERIF_THOROUGH_BUDGET override the per-check defaults."""
    if tier_ == "quick":
        return float(os.environ.get("VERIF_QUICK_BUDGET", quick_s))
    return float(os.environ.get("VERIF_THOROUGH_BUDGET", thorough_s))


def tier(argv_tier: str | None = None) -> str:
    t = argv_tier or os.environ.get("VERIF_TIER", "quick")
    assert t in ("quick", "thorough"), t
    return t


# ----------------------------------------------------------------------------- scratch
_SCRATCH = None


def scratch() -> str:
    """Per-run scratch directory (outside /repo, /verif and /tmp), removed at exit."""
    global _SCRATCH
    if os.environ.get("VF_SCRATCH"):
        return os.environ["VF_SCRATCH"]
    if _SCRATCH is None:
        base = os.environ.get("VERIF_SCRATCH_BASE", "/var/tmp")
        os.makedirs(base, exist_ok=True)
        _SCRATCH = tempfile.mkdtemp(prefix="ffcx-verif-", dir=base)
        atexit.register(shutil.rmtree, _SCRATCH, True)
    return _SCRATCH


def case_hash(obj) -> str:
    return hashlib.sha1(json.dumps(obj, sort_keys=True, default=str).encode()).hexdigest()[:12]


def jsonable(o):
    """Best-effort conversion of numpy things to JSON."""
    import numpy as np

    if isinstance(o, dict):
        return {str(k): jsonable(v) for k, v in o.items()}
    if isinstance(o, (list, tuple, set, frozenset)):
        return [jsonable(v) for v in o]
    if isinstance(o, np.ndarray):
        if np.iscomplexobj(o):
            return [jsonable(v) for v in o.tolist()]
        return o.tolist()
    if isinstance(o, (np.integer,)):
        return int(o)
    if isinstance(o, (np.floating,)):
        return float(o)
    if isinstance(o, (complex, np.complexfloating)):
        return [float(o.real), float(o.imag)]
    if isinstance(o, (np.bool_,)):
        return bool(o)
    if isinstance(o, (str, int, float, bool)) or o is None:
        return o
    return str(o)


# ----------------------------------------------------------------------------- worker pool
def worker_env(extra: dict | None = None) -> dict:
    env = dict(os.environ)
    env["VF_SCRATCH"] = scratch()
    env.setdefault("PYTHONHASHSEED", "0")
    env["PYTHONPATH"] = VERIF + os.pathsep + os.path.join(VERIF, ".deps") + (
        os.pathsep + env["PYTHONPATH"] if env.get("PYTHONPATH") else ""
    )
    env["FFCX_VERIF_REPO"] = REPO
    env["FFCX_VERIF"] = "1"
    # one BLAS/OpenMP thread per worker: the pool provides the parallelism
    for k in ("OMP_NUM_THREADS", "OPENBLAS_NUM_THREADS", "MKL_NUM_THREADS", "NUMBA_NUM_THREADS"):
        env.setdefault(k, "1")
    env.setdefault("XDG_CONFIG_HOME", os.path.join(scratch(), "xdg-empty"))
    if extra:
        env.update({k: str(v) for k, v in extra.items()})
    return env


def _run_chunk(module: str, chunk: list, timeout: float, env: dict, tag: str):
    d = scratch()
    fin = os.path.join(d, f"in-{tag}.json")
    fout = os.path.join(d, f"out-{tag}.jsonl")
    with open(fin, "w") as f:
        json.dump(chunk, f)
    open(fout, "w").close()
    t0 = time.time()
    status = "ok"
    try:
        p = subprocess.run(
            [PY, "-m", "vf.worker", module, fin, fout],
            cwd=d,
            env=env,
            timeout=timeout,
            stdout=subprocess.PIPE,
            stderr=subprocess.STDOUT,
            text=True,
            errors="replace",
        )
        out = p.stdout
        if p.returncode != 0:
            status = f"exit {p.returncode}"
    except subprocess.TimeoutExpired as e:
        out = e.stdout if isinstance(e.stdout, str) else (e.stdout or b"").decode(errors="replace")
        status = "timeout"
    results = {}
    with open(fout) as f:
        for line in f:
            line = line.strip()
            if not line:
                continue
            try:
                r = json.loads(line)
            except json.JSONDecodeError:
                continue
            results[r["_index"]] = r
    for fn in (fin, fout):
        try:
            os.unlink(fn)
        except OSError:
            pass
    return results, status, out[-4000:] if out else "", time.time() - t0


def run_pool(
    module: str,
    cases: list,
    per_case_timeout: float = 120.0,
    chunk: int = 4,
    nproc: int | None = None,
    env_extra: dict | None = None,
    progress: bool = True,
    deadline: float | None = None,
) -> list[dict]:
    """Run `vf.checks.<module>.run_case(case)` for every case in fresh interpreter processes.

    Cases are shipped in chunks (one interpreter per chunk) to amortise import cost; cases
    of a chunk that died or timed out before producing a result are retried alone, once;
    a case that still produces nothing is INCONCLUSIVE (never a violation, never held).
    `deadline` (epoch seconds): cases not started by then are dropped and reported as
    truncated (recorded in evidence), not as verdicts.
    """
    nproc = nproc or NPROC
    env = worker_env(env_extra)
    indexed = [dict(c, _index=i) for i, c in enumerate(cases)]
    chunks = [indexed[i : i + chunk] for i in range(0, len(indexed), chunk)]
    results: dict[int, dict] = {}
    retry: list[dict] = []
    done = [0]
    t0 = time.time()

    def work(args):
        k, ch = args
        if deadline is not None and time.time() > deadline:
            return {}, "skipped", "", 0.0, ch
        res, status, out, dt = _run_chunk(module, ch, per_case_timeout * len(ch) + 30, env, f"{k}")
        return res, status, out, dt, ch

    skipped = []
    with ThreadPoolExecutor(nproc) as ex:
        for res, status, out, dt, ch in ex.map(work, list(enumerate(chunks))):
            if status == "skipped":
                skipped += ch
                continue
            results.update(res)
            missing = [c for c in ch if c["_index"] not in res]
            if missing:
                for c in missing:
                    c["_first_status"] = status
                    c["_first_out"] = out
                retry += missing
            done[0] += len(ch)
            if progress and done[0] % max(1, (len(indexed) // 10)) < len(ch):
                print(f"  [{module}] {done[0]}/{len(indexed)} cases, {time.time() - t0:.0f}s", flush=True)
        if retry:
            print(f"  [{module}] retrying {len(retry)} cases individually", flush=True)

            def work1(c):
                first = (c.pop("_first_status", ""), c.pop("_first_out", ""))
                res, status, out, dt = _run_chunk(
                    module, [c], per_case_timeout + 30, env, f"r{c['_index']}"
                )
                return c, res, status, out, first

            for c, res, status, out, first in ex.map(work1, retry):
                if c["_index"] in res:
                    results[c["_index"]] = res[c["_index"]]
                else:
                    results[c["_index"]] = {
                        "_index": c["_index"],
                        "verdict": INCONCLUSIVE,
                        "why": f"worker produced no result ({status}; first attempt {first[0]})",
                        "log": out[-1500:],
                    }
    for c in skipped:
        results[c["_index"]] = {"_index": c["_index"], "verdict": "skipped", "why": "wall budget reached"}
    out = []
    for i, c in enumerate(cases):
        r = results[i]
        r["case"] = c
        out.append(r)
    return out


# ----------------------------------------------------------------------------- known findings
def load_known_findings() -> list[dict]:
    p = os.path.join(VERIF, "known_findings.json")
    if not os.path.exists(p):
        return []
    with open(p) as f:
        return json.load(f)["findings"]


def open_findings(pid: str) -> dict[str, dict]:
    return {
        f["mechanism"]: f
        for f in load_known_findings()
        if f["property"] == pid and f.get("status", "open") == "open"
    }


# ----------------------------------------------------------------------------- run bookkeeping
class Run:
    """Collects verdicts of one check run, writes evidence, prints the verdict lines."""

    def __init__(self, pid: str, tier_: str, level: str, rule: str, assumptions: list[str]):
        self.pid, self.tier, self.level, self.rule = pid, tier_, level, rule
        self.assumptions = assumptions
        self.seed = seed()
        self.t0 = time.time()
        self.evaluations = 0
        self.held = 0
        self.inconclusive: list[dict] = []
        self.violations: list[dict] = []  # each: {mechanism, what, replay(dict)}
        self.skipped = 0
        self.nontrivial: set[str] = set()
        self.samples: list = []
        self.counters: dict = {}
        self.coverage_sets: dict[str, set] = {}
        self.minimums: dict[str, int] = {}
        self.extra: dict = {}
        self.known = open_findings(pid)

    # -- recording
    def count(self, key: str, n: int = 1):
        self.counters[key] = self.counters.get(key, 0) + n

    def cover(self, key: str, value):
        self.coverage_sets.setdefault(key, set()).add(value if isinstance(value, str) else json.dumps(jsonable(value)))

    def require(self, counter: str, minimum: int):
        """The run is INCONCLUSIVE (exit 2) unless counter >= minimum at the end."""
        self.minimums[counter] = minimum

    def sample(self, s, limit: int = 6):
        if len(self.samples) < limit:
            self.samples.append(jsonable(s))

    def add(self, r: dict):
        """Fold a worker result: keys verdict, nontrivial(list of hashes), counters, cover, sample,
        violations(list of {mechanism, what, replay})."""
        self.evaluations += int(r.get("evaluations", 1))
        for k, v in (r.get("counters") or {}).items():
            self.count(k, v)
        for k, vs in (r.get("cover") or {}).items():
            for v in vs:
                self.cover(k, v)
        for h in r.get("nontrivial") or []:
            self.nontrivial.add(h)
        if r.get("sample") is not None:
            self.sample(r["sample"])
        v = r.get("verdict")
        if v == HELD:
            self.held += 1
        elif v == VIOLATED:
            for viol in r.get("violations") or [{"mechanism": "unclassified", "what": r.get("why", "")}]:
                viol = dict(viol)
                viol.setdefault("replay", {})
                viol["replay"].setdefault("case", r.get("case"))
                self.violations.append(viol)
        elif v == "skipped":
            self.skipped += 1
        else:
            self.inconclusive.append({"why": r.get("why", "?"), "case": r.get("case"), "log": r.get("log", "")})

    def violation(self, mechanism: str, what: str, replay: dict):
        self.violations.append({"mechanism": mechanism, "what": what, "replay": replay})

    # -- finishing
    def finish(self) -> int:
        wall = time.time() - self.t0
        new_violations = []
        known_hits: dict[str, int] = {}
        for v in self.violations:
            if v["mechanism"] in self.known:
                known_hits[v["mechanism"]] = known_hits.get(v["mechanism"], 0) + 1
            else:
                new_violations.append(v)
        outbase = os.environ.get("VF_OUT_DIR", VERIF)
        rdir = os.path.join(outbase, "replays", self.pid)
        lines = []
        for v in new_violations[:20]:
            os.makedirs(rdir, exist_ok=True)
            body = {"property": self.pid, "tier": self.tier, "seed": self.seed, **jsonable(v)}
            path = os.path.join(rdir, case_hash(body) + ".json")
            with open(path, "w") as f:
                json.dump(body, f, indent=1)
            lines.append(f"VIOLATION property={self.pid} replay={path}")
            print(f"  violation [{v['mechanism']}]: {v['what'][:600]}")
        for m, n in sorted(known_hits.items()):
            print(f"KNOWN-FINDING: property={self.pid} {self.known[m]['what']} (reproduced {n}x, mechanism={m})")
        shortfalls = [
            f"{k}={self.counters.get(k, 0)}<{m}" for k, m in self.minimums.items() if self.counters.get(k, 0) < m
        ]
        cov = {
            "evaluations": int(self.evaluations),
            "distinct_nontrivial": len(self.nontrivial),
            "rule": self.rule,
            "samples": self.samples or ["(no sample recorded)"],
            "held": self.held,
            "inconclusive": len(self.inconclusive),
            "inconclusive_reasons": _tally([i["why"][:160] for i in self.inconclusive]),
            "skipped_by_wall_budget": self.skipped,
            "violations_new": len(new_violations),
            "violations_known": known_hits,
            "counters": dict(sorted(self.counters.items())),
            "distinct": {k: len(v) for k, v in sorted(self.coverage_sets.items())},
            "distinct_values": {k: sorted(v)[:60] for k, v in sorted(self.coverage_sets.items())},
            "monitor_minimums": self.minimums,
            "monitor_shortfalls": shortfalls,
            "repo": REPO,
        }
        cov.update(jsonable(self.extra))
        ev = {
            "property_id": self.pid,
            "tier": self.tier,
            "seed": self.seed,
            "level": self.level,
            "coverage": cov,
            "assumptions": self.assumptions,
            "wall_s": round(wall, 2),
            "violations": len(new_violations),
        }
        os.makedirs(os.path.join(outbase, "evidence"), exist_ok=True)
        with open(os.path.join(outbase, "evidence", f"{self.pid}.json"), "w") as f:
            json.dump(ev, f, indent=1)
            f.write("\n")
        print(
            f"[{self.pid}/{self.tier}] evaluations={self.evaluations} held={self.held} "
            f"inconclusive={len(self.inconclusive)} known={sum(known_hits.values())} "
            f"new_violations={len(new_violations)} distinct_nontrivial={len(self.nontrivial)} "
            f"skipped={self.skipped} wall={wall:.0f}s"
        )
        for k, n in list(cov["inconclusive_reasons"].items())[:8]:
            print(f"  inconclusive x{n}: {k}")
        if self.counters:
            print("  counters: " + ", ".join(f"{k}={v}" for k, v in sorted(self.counters.items())))
        for ln in lines:
            print(ln)
        if new_violations:
            return 1
        if shortfalls or len(self.nontrivial) < 2:
            print(
                f"INCONCLUSIVE property={self.pid} deciding monitors under-exercised: "
                f"{shortfalls} distinct_nontrivial={len(self.nontrivial)}"
            )
            return 2
        return 0


def _tally(xs):
    d: dict[str, int] = {}
    for x in xs:
        d[x] = d.get(x, 0) + 1
    return dict(sorted(d.items(), key=lambda kv: -kv[1]))


def main_wrapper(fn):
    """Run a check's main(tier) and turn unexpected harness errors into exit 2 (not 1)."""
    import argparse
    import traceback

    ap = argparse.ArgumentParser()
    ap.add_argument("--tier", default=None)
    ap.add_argument("--replay", default=None)
    a = ap.parse_args()
    try:
        rc = fn(tier(a.tier), a.replay)
    except SystemExit:
        raise
    except BaseException:
        traceback.print_exc()
        print("INCONCLUSIVE harness error (see traceback)")
        rc = 2
    sys.exit(rc)
