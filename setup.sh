#!/bin/bash
# MANIFEST.setup_cmd: offline toolchain probe + third-party contract libraries into .deps (git-ignored).
set -e
cd "$(dirname "$0")"
if [ ! -d .deps/icontract ] || [ ! -d .deps/deal ]; then
  mkdir -p .deps
  PIP_NO_INDEX=1 /venv/bin/pip install -q --no-index --find-links /opt/veriftools/wheels --target .deps icontract deal >/dev/null 2>&1 \
    || { echo "pip install of icontract/deal failed"; exit 1; }
fi
for t in clang gcc valgrind strace nm; do command -v $t >/dev/null || { echo "missing tool $t"; exit 1; }; done
/venv/bin/python -c "import sys; sys.path.insert(0,'.deps'); import icontract, deal, numpy, basix, ufl, cffi, pycparser, numba, sympy, hypothesis" 
echo "setup ok"
